---------------------------- MODULE CasesData ----------------------------
(* Placeholder: every run generates its own CasesData module next to copies of the
   specification modules; it defines the constant Cases (a sequence of case records). *)
EXTENDS Integers, Sequences, TLC
Machines == <<>>
Cases == <<>>
=============================================================================
