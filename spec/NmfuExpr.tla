------------------------------ MODULE NmfuExpr ------------------------------
(***************************************************************************)
(* C arithmetic over nmfu math expressions.                                *)
(*                                                                         *)
(* An expression is a tree of records (the exporter's / generator's JSON): *)
(*   [k |-> "lit", t |-> "int"|"bool"|"enum", v |-> n]                      *)
(*   [k |-> "var", name |-> s]      output variable                         *)
(*   [k |-> "len", name |-> s]      string/raw length counter               *)
(*   [k |-> "idx", name |-> s, i |-> e]  indexed byte                       *)
(*   [k |-> "last"]                 $last  (C: inval)                       *)
(*   [k |-> "sum", c |-> <<e..>>, neg |-> <<b..>>]                          *)
(*   [k |-> "mul", c |-> <<e..>>, ops |-> <<"*"|"/"|"%"..>>]                *)
(*   [k |-> "cmp", op |-> s, l |-> e, r |-> e]                              *)
(*   [k |-> "shift", l |-> e, r |-> e, left |-> BOOLEAN]                    *)
(*   [k |-> "bit", op |-> "|"|"^"|"&", c |-> <<e..>>]                       *)
(*   [k |-> "or" | "and", c |-> <<e..>>]                                    *)
(*                                                                         *)
(* Evaluation yields [s |-> "ok"|"ub"|"wide", v |-> Int, t |-> ctype] with  *)
(* ctype in {"int","uint","long","ulong"} (LP64, after integer promotion).  *)
(*  "ub"   : the C expression has undefined behaviour (outside C14).        *)
(*  "wide" : the mathematically defined result is outside the range this   *)
(*           TLC-integer model carries (|v| >= 2^31 or a modular wrap of an *)
(*           unsigned/64-bit type).  Eval is the fast 32-bit evaluator;     *)
(*           EvalC falls back to the exact limb evaluator EvalW (module     *)
(*           NmfuWide) whenever Eval answers "wide", and yields status      *)
(*           "big" with the wide value w when the result does not fit.      *)
(***************************************************************************)
EXTENDS Integers, Sequences, Bitwise, NmfuWide

MAXI == 2147483647
MINI == -2147483647 - 1

Abs(a) == IF a < 0 THEN -a ELSE a

R(s, v, t) == [s |-> s, v |-> v, t |-> t]
Ok(v, t)   == R("ok", v, t)
UB         == R("ub", 0, "int")
Wide       == R("wide", 0, "int")

\* ---- guarded arithmetic on TLC integers (never overflows the 32-bit evaluator) ----
AddOvf(a, b) == (b > 0 /\ a > MAXI - b) \/ (b < 0 /\ a < MINI - b)
SubOvf(a, b) == (b < 0 /\ a > MAXI + b) \/ (b > 0 /\ a < MINI + b)
MulOvf(a, b) == IF a = 0 \/ b = 0 THEN FALSE
                ELSE IF a = MINI \/ b = MINI THEN ~((a = 1) \/ (b = 1))
                ELSE Abs(a) > MAXI \div Abs(b)
\* C division truncates toward zero
TDiv(a, b) == LET q == Abs(a) \div Abs(b) IN IF (a < 0) # (b < 0) THEN -q ELSE q
TMod(a, b) == a - TDiv(a, b) * b

RECURSIVE Pow2(_)
Pow2(n) == IF n = 0 THEN 1 ELSE 2 * Pow2(n - 1)

\* two's complement bitwise on (possibly negative) 32-bit values, via ~x = -x-1
NotI(a) == IF a >= 0 THEN -a - 1 ELSE -(a + 1)      \* (no intermediate leaves the 32-bit range)
AndI(a, b) == IF a >= 0 /\ b >= 0 THEN a & b
              ELSE IF a < 0 /\ b >= 0 THEN b - (b & NotI(a))
              ELSE IF a >= 0 /\ b < 0 THEN a - (a & NotI(b))
              ELSE NotI(NotI(a) | NotI(b))
OrI(a, b)  == IF a >= 0 /\ b >= 0 THEN a | b
              ELSE IF a < 0 /\ b >= 0 THEN NotI(NotI(a) - (NotI(a) & b))
              ELSE IF a >= 0 /\ b < 0 THEN NotI(NotI(b) - (NotI(b) & a))
              ELSE NotI(NotI(a) & NotI(b))
XorI(a, b) == IF a >= 0 /\ b >= 0 THEN a ^^ b
              ELSE IF a < 0 /\ b >= 0 THEN NotI(NotI(a) ^^ b)
              ELSE IF a >= 0 /\ b < 0 THEN NotI(a ^^ NotI(b))
              ELSE NotI(a) ^^ NotI(b)

\* ---- C types ----
Rank(t) == CASE t = "int" -> 0 [] t = "uint" -> 1 [] t = "long" -> 2 [] t = "ulong" -> 3
\* usual arithmetic conversions on LP64
UAC(a, b) == IF a = "ulong" \/ b = "ulong" THEN "ulong"
             ELSE IF a = "long" \/ b = "long" THEN "long"
             ELSE IF a = "uint" \/ b = "uint" THEN "uint"
             ELSE "int"
Unsigned(t) == t \in {"uint", "ulong"}

\* representability of a mathematical result v in type t within this model:
\* "ok" exact, "ub" signed overflow, "wide" beyond the TLC-integer model
Fit(v, t, ovf) ==
  IF t = "int" THEN (IF ovf THEN UB ELSE Ok(v, "int"))
  ELSE IF ovf THEN Wide
  ELSE IF Unsigned(t) /\ v < 0 THEN Wide
  ELSE Ok(v, t)

\* convert an evaluated operand to type t (value-preserving cases only)
Conv(x, t) == IF x.s # "ok" THEN x
              ELSE IF Unsigned(t) /\ x.v < 0 THEN Wide
              ELSE Ok(x.v, t)

Worst(a, b) == IF a.s = "ub" \/ b.s = "ub" THEN UB ELSE Wide

\* declared C type of an output (promoted): D is the decl record of the exporter
DeclType(D, packed) ==
  CASE D.type = "bool" -> "int"
    [] D.type = "enum" -> IF packed THEN "int" ELSE "uint"
    [] D.type = "int"  -> IF D.width = 8 THEN (IF D.signed THEN "long" ELSE "ulong")
                          ELSE IF D.width = 4 /\ ~D.signed THEN "uint" ELSE "int"
    [] OTHER -> "int"

CounterType(D) == IF D.type = "str" /\ D.size >= 65536 THEN "uint" ELSE "int"

\* store conversion to the declared type (C: implicit conversion on assignment)
StoreConvV(x, D) ==
  IF x.s # "ok" THEN x
  ELSE CASE D.type = "bool" -> Ok(IF x.v # 0 THEN 1 ELSE 0, "int")
    [] D.type = "enum" -> Ok(x.v, "int")
    [] D.type = "int" ->
         IF D.width = 1 THEN (IF D.signed THEN Ok((((x.v % 256) + 128) % 256) - 128, "int") ELSE Ok(x.v % 256, "int"))
         ELSE IF D.width = 2 THEN (IF D.signed THEN Ok((((x.v % 65536) + 32768) % 65536) - 32768, "int") ELSE Ok(x.v % 65536, "int"))
         ELSE IF D.width = 4 THEN (IF D.signed THEN Ok(x.v, "int") ELSE (IF x.v < 0 THEN Wide ELSE Ok(x.v, "uint")))
         ELSE (IF D.signed THEN Ok(x.v, "long") ELSE (IF x.v < 0 THEN Wide ELSE Ok(x.v, "ulong")))
    [] OTHER -> Ok(x.v, "int")

\* ---- binary operators on evaluated operands ----
ArithV(op, a0, b0) ==
  IF a0.s # "ok" \/ b0.s # "ok" THEN Worst(a0, b0)
  ELSE LET t == UAC(a0.t, b0.t) a == Conv(a0, t) b == Conv(b0, t) IN
    IF a.s # "ok" \/ b.s # "ok" THEN Wide
    ELSE CASE op = "+" -> Fit(IF AddOvf(a.v, b.v) THEN 0 ELSE a.v + b.v, t, AddOvf(a.v, b.v))
           [] op = "-" -> Fit(IF SubOvf(a.v, b.v) THEN 0 ELSE a.v - b.v, t, SubOvf(a.v, b.v))
           [] op = "*" -> Fit(IF MulOvf(a.v, b.v) THEN 0 ELSE a.v * b.v, t, MulOvf(a.v, b.v))
           \* (-2^31 cannot be negated in the 32-bit evaluator: those divisions are left to the wide evaluator)
           [] op = "/" -> IF b.v = 0 THEN UB
                          ELSE IF a.v = MINI /\ b.v = -1 THEN (IF t = "int" THEN UB ELSE Wide)
                          ELSE IF a.v = MINI \/ b.v = MINI THEN Wide
                          ELSE Ok(TDiv(a.v, b.v), t)
           [] op = "%" -> IF b.v = 0 THEN UB
                          ELSE IF a.v = MINI /\ b.v = -1 THEN (IF t = "int" THEN UB ELSE Ok(0, t))
                          ELSE IF a.v = MINI \/ b.v = MINI THEN Wide
                          ELSE Ok(TMod(a.v, b.v), t)
           [] op = "&" -> Ok(AndI(a.v, b.v), t)
           [] op = "|" -> Ok(OrI(a.v, b.v), t)
           [] op = "^" -> Ok(XorI(a.v, b.v), t)

CmpV(op, a0, b0) ==
  IF a0.s # "ok" \/ b0.s # "ok" THEN Worst(a0, b0)
  ELSE LET t == UAC(a0.t, b0.t) a == Conv(a0, t) b == Conv(b0, t) IN
    IF a.s # "ok" \/ b.s # "ok" THEN Wide
    ELSE LET r == CASE op = "<" -> a.v < b.v [] op = ">" -> a.v > b.v [] op = "<=" -> a.v <= b.v
                    [] op = ">=" -> a.v >= b.v [] op = "==" -> a.v = b.v [] op = "!=" -> a.v # b.v
         IN Ok(IF r THEN 1 ELSE 0, "int")

Bits(t) == IF t \in {"int", "uint"} THEN 32 ELSE 64

ShiftV(left, a, b) ==
  IF a.s # "ok" \/ b.s # "ok" THEN Worst(a, b)
  ELSE IF b.v < 0 \/ b.v >= Bits(a.t) THEN UB
  ELSE IF left THEN
         IF a.v < 0 THEN (IF Unsigned(a.t) THEN Wide ELSE UB)
         ELSE IF a.v = 0 THEN Ok(0, a.t)
         ELSE IF b.v >= 31 THEN (IF a.t = "int" THEN UB ELSE Wide)
         ELSE IF a.v > MAXI \div Pow2(b.v) THEN (IF a.t = "int" THEN UB ELSE Wide)
         ELSE Ok(a.v * Pow2(b.v), a.t)
  \* right shift; gcc shifts negative values arithmetically (implementation-defined, not undefined)
  ELSE IF b.v >= 31 THEN Ok(IF a.v < 0 THEN -1 ELSE 0, a.t)
  ELSE Ok(a.v \div Pow2(b.v), a.t)

\* TLC passes operator arguments unevaluated and re-evaluates them at every use; binding them through a singleton
\* set forces one evaluation (otherwise the cost is exponential in the depth of an expression tree)
Arith(op, a0, b0) == CHOOSE x \in {ArithV(op, a, b) : a \in {a0}, b \in {b0}} : TRUE
Cmp(op, a0, b0) == CHOOSE x \in {CmpV(op, a, b) : a \in {a0}, b \in {b0}} : TRUE
Shift(left, a0, b0) == CHOOSE x \in {ShiftV(left, a, b) : a \in {a0}, b \in {b0}} : TRUE
StoreConv(x0, D) == CHOOSE y \in {StoreConvV(x, D) : x \in {x0}} : TRUE

\* ---- evaluation ----
\* env: [d |-> store (name -> cell), decl |-> name -> decl record, last |-> Int,
\*       cfg |-> [packed, u8, unsafe]]
\* string cells: [buf |-> seq of bytes 0..255, len |-> n, al |-> alloc]; scalars: [v |-> n]
ByteAsChar(b, u8) == IF u8 \/ b < 128 THEN b ELSE b - 256

\* what a bounds-checked s[i] tests the index against: the current length of a string (only the bytes of its present value
\* are readable - what lies behind them would depend on the storage option and on whether delete frees), the full size of a
\* raw output; unsafe indexing performs no test, there the capacity only separates a defined read from an undefined one
IdxBound(D, cell, unsafe) == IF D.type = "str" /\ ~unsafe THEN cell.len ELSE D.size

RECURSIVE Eval(_, _)
RECURSIVE FoldArith(_, _, _, _, _)
FoldArith(acc, cs, ops, i, env) ==
  IF i > Len(cs) THEN acc
  ELSE FoldArith(Arith(ops[i], acc, Eval(cs[i], env)), cs, ops, i + 1, env)
RECURSIVE FoldLogic(_, _, _, _)
\* short-circuit: isor: stop at first non-zero; isand: stop at first zero
FoldLogic(cs, i, isor, env) ==
  IF i > Len(cs) THEN Ok(IF isor THEN 0 ELSE 1, "int")
  ELSE CHOOSE res \in {
    IF x.s # "ok" THEN x
    ELSE IF isor /\ x.v # 0 THEN Ok(1, "int")
    ELSE IF ~isor /\ x.v = 0 THEN Ok(0, "int")
    ELSE FoldLogic(cs, i + 1, isor, env)
    : x \in {Eval(cs[i], env)}} : TRUE

Eval(e, env) ==
  CASE e.k = "lit" -> Ok(e.v, "int")
    [] e.k = "litwide" -> Wide
    [] e.k = "litw" -> Wide
    [] e.k = "var" -> LET D == env.decl[e.name] IN
                      IF "w" \in DOMAIN env.d[e.name] THEN Wide ELSE Ok(env.d[e.name].v, DeclType(D, env.cfg.packed))
    [] e.k = "len" -> Ok(env.d[e.name].len, CounterType(env.decl[e.name]))
    [] e.k = "idx" ->
         LET D == env.decl[e.name] cell == env.d[e.name] size == IdxBound(D, cell, env.cfg.unsafe) IN
         CHOOSE res \in {
         IF i.s # "ok" THEN i
         ELSE IF i.v >= 0 /\ i.v < size
              \* (a string allocated on demand has no buffer until it is written: the guarded read yields 0)
              THEN (IF cell.al \in {"null", "freed"} THEN (IF env.cfg.unsafe THEN UB ELSE Ok(0, "int"))
                    ELSE Ok(ByteAsChar(cell.buf[i.v + 1], env.cfg.u8 \/ D.type = "raw"), "int"))
              ELSE (IF env.cfg.unsafe THEN UB ELSE Ok(0, "int"))
         : i \in {Eval(e.i, env)}} : TRUE
    [] e.k = "last" -> Ok(env.last, "int")
    [] e.k = "sum" -> FoldArith(Eval(e.c[1], env), e.c, [j \in 1..Len(e.neg) |-> IF e.neg[j] THEN "-" ELSE "+"], 2, env)
    [] e.k = "mul" -> FoldArith(Eval(e.c[1], env), e.c, e.ops, 2, env)
    [] e.k = "bit" -> FoldArith(Eval(e.c[1], env), e.c, [j \in 1..Len(e.c) |-> e.op], 2, env)
    [] e.k = "cmp" -> Cmp(e.op, Eval(e.l, env), Eval(e.r, env))
    [] e.k = "shift" -> Shift(e.left, Eval(e.l, env), Eval(e.r, env))
    [] e.k = "or" -> FoldLogic(e.c, 1, TRUE, env)
    [] e.k = "and" -> FoldLogic(e.c, 1, FALSE, env)

\* a condition (IntegerCondition wraps ints as `!= 0` at construction, so exprs are 0/1)
Truth(x) == x.v # 0

\* ---------------- exact evaluation over wide integers ----------------
\* results: [s |-> "ok" | "ub" | "wide", w |-> wide integer, t |-> ctype]
TBits(t) == IF t \in {"int", "uint"} THEN 32 ELSE 64
TSigned(t) == t \in {"int", "long"}
RW(s, w, t) == [s |-> s, w |-> w, t |-> t]
OkW(w, t) == RW("ok", w, t)
UBW == RW("ub", WZero, "int")
WideW == RW("wide", WZero, "int")
WorstW(a, b) == IF a.s = "ub" \/ b.s = "ub" THEN UBW ELSE WideW
\* conversion to type t: modular for unsigned targets; a signed target always holds the operands it is given by the
\* usual arithmetic conversions, except ulong -> long style narrowing, which gcc defines as modular too
ConvW(x, t) == OkW(WConv(x.w, TBits(t), TSigned(t)), t)

ArithWV(op, a0, b0) ==
  IF a0.s # "ok" \/ b0.s # "ok" THEN WorstW(a0, b0)
  ELSE LET t == UAC(a0.t, b0.t)
           bits == TBits(t) sg == TSigned(t)
           a == ConvW(a0, t).w b == ConvW(b0, t).w
           fit(r) == IF sg THEN (IF WInRange(r, bits, TRUE) THEN OkW(r, t) ELSE UBW) ELSE OkW(WConv(r, bits, FALSE), t)
       IN CASE op = "+" -> fit(WAdd(a, b))
            [] op = "-" -> fit(WSub(a, b))
            [] op = "*" -> fit(WMul(a, b))
            [] op = "/" -> IF b = WZero THEN UBW ELSE fit(WDiv(a, b))
            [] op = "%" -> IF b = WZero THEN UBW
                           ELSE IF sg /\ ~WInRange(WDiv(a, b), bits, TRUE) THEN UBW
                           ELSE OkW(WMod(a, b), t)
            [] op \in {"&", "|", "^"} -> OkW(WBitOp(op, a, b, bits, sg), t)

CmpWV(op, a0, b0) ==
  IF a0.s # "ok" \/ b0.s # "ok" THEN WorstW(a0, b0)
  ELSE LET t == UAC(a0.t, b0.t)
           c == WCmp(ConvW(a0, t).w, ConvW(b0, t).w)
           r == CASE op = "<" -> c < 0 [] op = ">" -> c > 0 [] op = "<=" -> c <= 0
                  [] op = ">=" -> c >= 0 [] op = "==" -> c = 0 [] op = "!=" -> c # 0
       IN OkW(WFromInt(IF r THEN 1 ELSE 0), "int")

ShiftWV(left, a, b) ==
  IF a.s # "ok" \/ b.s # "ok" THEN WorstW(a, b)
  ELSE LET bits == TBits(a.t) sg == TSigned(a.t) IN
    IF b.w.neg \/ ~WFitsInt(b.w) THEN UBW
    ELSE LET n == WToInt(b.w) IN
      IF n >= bits THEN UBW
      ELSE IF left THEN
             (IF sg THEN (IF a.w.neg THEN UBW
                          ELSE LET r == WMk(FALSE, MShl(a.w.m, n)) IN IF WInRange(r, bits, TRUE) THEN OkW(r, a.t) ELSE UBW)
              ELSE OkW(WShl(a.w, n, bits, FALSE), a.t))
      ELSE OkW(WShr(a.w, n, bits, sg), a.t)

ArithW(op, a0, b0) == CHOOSE x \in {ArithWV(op, a, b) : a \in {a0}, b \in {b0}} : TRUE
CmpW(op, a0, b0) == CHOOSE x \in {CmpWV(op, a, b) : a \in {a0}, b \in {b0}} : TRUE
ShiftW(left, a0, b0) == CHOOSE x \in {ShiftWV(left, a, b) : a \in {a0}, b \in {b0}} : TRUE

RECURSIVE EvalW(_, _)
RECURSIVE FoldArithW(_, _, _, _, _)
FoldArithW(acc, cs, ops, i, env) ==
  IF i > Len(cs) THEN acc
  ELSE FoldArithW(ArithW(ops[i], acc, EvalW(cs[i], env)), cs, ops, i + 1, env)
RECURSIVE FoldLogicW(_, _, _, _)
FoldLogicW(cs, i, isor, env) ==
  IF i > Len(cs) THEN OkW(WFromInt(IF isor THEN 0 ELSE 1), "int")
  ELSE CHOOSE res \in {
    IF x.s # "ok" THEN x
    ELSE IF isor /\ x.w # WZero THEN OkW(WFromInt(1), "int")
    ELSE IF ~isor /\ x.w = WZero THEN OkW(WFromInt(0), "int")
    ELSE FoldLogicW(cs, i + 1, isor, env)
    : x \in {EvalW(cs[i], env)}} : TRUE

EvalW(e, env) ==
  CASE e.k = "lit" -> OkW(WFromInt(e.v), "int")
    [] e.k = "litw" -> OkW(e.w, "long")
    [] e.k = "litwide" -> WideW
    [] e.k = "var" -> LET D == env.decl[e.name] cell == env.d[e.name] IN
                      OkW(IF "w" \in DOMAIN cell THEN cell.w ELSE WFromInt(cell.v), DeclType(D, env.cfg.packed))
    [] e.k = "len" -> OkW(WFromInt(env.d[e.name].len), CounterType(env.decl[e.name]))
    [] e.k = "idx" ->
         LET D == env.decl[e.name] cell == env.d[e.name] size == IdxBound(D, cell, env.cfg.unsafe) IN
         CHOOSE res \in {
         IF i.s # "ok" THEN i
         ELSE IF ~i.w.neg /\ WFitsInt(i.w) /\ WToInt(i.w) < size
              THEN (IF cell.al \in {"null", "freed"} THEN (IF env.cfg.unsafe THEN UBW ELSE OkW(WZero, "int"))
                    ELSE OkW(WFromInt(ByteAsChar(cell.buf[WToInt(i.w) + 1], env.cfg.u8 \/ D.type = "raw")), "int"))
              ELSE (IF env.cfg.unsafe THEN UBW ELSE OkW(WZero, "int"))
         : i \in {EvalW(e.i, env)}} : TRUE
    [] e.k = "last" -> OkW(WFromInt(env.last), "int")
    [] e.k = "sum" -> FoldArithW(EvalW(e.c[1], env), e.c, [j \in 1..Len(e.neg) |-> IF e.neg[j] THEN "-" ELSE "+"], 2, env)
    [] e.k = "mul" -> FoldArithW(EvalW(e.c[1], env), e.c, e.ops, 2, env)
    [] e.k = "bit" -> FoldArithW(EvalW(e.c[1], env), e.c, [j \in 1..Len(e.c) |-> e.op], 2, env)
    [] e.k = "cmp" -> CmpW(e.op, EvalW(e.l, env), EvalW(e.r, env))
    [] e.k = "shift" -> ShiftW(e.left, EvalW(e.l, env), EvalW(e.r, env))
    [] e.k = "or" -> FoldLogicW(e.c, 1, TRUE, env)
    [] e.k = "and" -> FoldLogicW(e.c, 1, FALSE, env)

\* ---------------- the evaluator the machine specification uses ----------------
\* status "ok" (v fits the TLC integers), "big" (exact value in w), "ub", "wide" (not modelled)
NarrowW(x) == IF x.s # "ok" THEN R(x.s, 0, "int")
              ELSE IF WFitsInt(x.w) THEN Ok(WToInt(x.w), x.t)
              ELSE [s |-> "big", v |-> 0, t |-> x.t, w |-> x.w]
EvalC(e, env) == CHOOSE y \in {IF r.s # "wide" THEN r ELSE NarrowW(EvalW(e, env)) : r \in {Eval(e, env)}} : TRUE
NonZero(x) == IF x.s = "big" THEN TRUE ELSE x.v # 0
\* the low byte of a value (character append)
LowByte(x) == IF x.s = "big" THEN (LET p == WPattern(x.w, 64) IN IF p = <<>> THEN 0 ELSE p[1] % 256) ELSE x.v % 256
AsWide(x) == IF x.s = "big" THEN x.w ELSE WFromInt(x.v)
CellOf(w) == IF WFitsInt(w) THEN [v |-> WToInt(w)] ELSE [w |-> w]
\* store conversion: [s |-> status, cell |-> the scalar cell holding the converted value]
StoreCellV(x, D) ==
  IF x.s \notin {"ok", "big"} THEN [s |-> x.s, cell |-> [v |-> 0]]
  ELSE LET fast == IF x.s = "ok" THEN StoreConvV(x, D) ELSE Wide IN
    IF fast.s = "ok" THEN [s |-> "ok", cell |-> [v |-> fast.v]]
    ELSE IF fast.s = "ub" THEN [s |-> "ub", cell |-> [v |-> 0]]
    ELSE CASE D.type = "bool" -> [s |-> "ok", cell |-> [v |-> IF NonZero(x) THEN 1 ELSE 0]]
           [] D.type = "int" -> [s |-> "ok", cell |-> CellOf(WConv(AsWide(x), 8 * D.width, D.signed))]
           [] OTHER -> [s |-> "wide", cell |-> [v |-> 0]]
StoreCell(x0, D) == CHOOSE y \in {StoreCellV(x, D) : x \in {x0}} : TRUE
=============================================================================
