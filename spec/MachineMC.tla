------------------------------ MODULE MachineMC ------------------------------
(***************************************************************************)
(* Exhaustive exploration of compiled machines under the API protocol.     *)
(*                                                                         *)
(* Cases[cid] = [mi, syms, maxlen, post]:  syms is a set of representative *)
(* symbols (one or more per cell of the partition of 0..255 induced by the *)
(* machine's transition sets and the byte constants of its expressions,    *)
(* plus END = 256 when the parser has an end function); maxlen bounds the  *)
(* number of symbols; post is the number of further calls explored after a *)
(* FAIL result.                                                            *)
(*                                                                         *)
(* The caller modelled here behaves as the documentation prescribes: it    *)
(* feeds one byte per call, re-invokes feed on the same byte after a yield *)
(* that did not consume it, and may call end at any time.                  *)
(*                                                                         *)
(* Properties are reported per violating step (with the hidden history as  *)
(* witness) instead of as TLC invariants, so one run lists all of them:    *)
(*   SPIN          a cycle of non-consuming moves (C04)                    *)
(*   YIELDLOCK     more than MaxYields yields without consuming (C04)      *)
(*   STALL         OK returned without consuming the byte (C10)            *)
(*   FAILNOTABS    a call after FAIL returned something else (C10)         *)
(*   UB            an action dereferences a null/freed buffer (C03)        *)
(*   CAP           capacity contract broken in the specification store     *)
(***************************************************************************)
EXTENDS NmfuMachine, Json, CasesData

VARIABLES cid, q, d, st, pf, hist
vars == <<cid, q, d, st, pf, hist>>
\* the input history is a witness only: states are identified by machine state, store and protocol phase, so
\* the search closes when the reachable (state, data) space is finite, whatever the length bound
View == <<cid, q, d, st, pf>>
Bound == Len(hist) <= Cases[cid].maxlen

M == Machines[Cases[cid].mi]
MaxYields == 8

Report(kind, x) == PrintT("@@" \o ToJson([kind |-> kind, cid |-> cid, hist |-> hist] @@ x))

\* feed one byte the way a conforming caller does: re-invoke while a yield leaves it unconsumed
RECURSIVE FeedByte(_, _, _, _, _)
FeedByte(qq, dd, c, codes, k) ==
  LET r == ByteStep(M, qq, dd, c) IN
  IF ~r.y THEN [r |-> r, codes |-> codes, lock |-> FALSE]
  ELSE IF r.adv = 1 THEN [r |-> [r EXCEPT !.res = "next"], codes |-> Append(codes, r.res), lock |-> FALSE]
  ELSE IF k = 0 THEN [r |-> r, codes |-> Append(codes, r.res), lock |-> TRUE]
  ELSE FeedByte(r.q, r.d, c, Append(codes, r.res), k - 1)

Init == /\ cid \in 1..Len(Cases)
        /\ q = -1 /\ d = <<>> /\ st = "start" /\ pf = 0 /\ hist = <<>>

Start ==
  /\ st = "start"
  /\ LET r == StartStep(M) IN
     /\ q' = r.q /\ d' = r.d /\ UNCHANGED <<cid, pf, hist>>
     /\ st' = IF r.res = "OK" THEN "run" ELSE IF r.res = "ub" THEN "stop" ELSE "stop"
     /\ (r.res = "ub") => Report("UB", [why |-> r.why, at |-> "start"])
     /\ (~CapInv(M, r.d) \/ ~DefaultsFit(M)) => Report("CAP", [at |-> "start", d |-> r.d])

Sym(c) ==
  /\ st \in {"run", "failed"}
  /\ (st = "failed") => pf < Cases[cid].post
  /\ LET isEnd == c = END
         f == IF isEnd THEN [r |-> EndStep(M, q, d), codes |-> <<>>, lock |-> FALSE] ELSE FeedByte(q, d, c, <<>>, MaxYields)
         r == f.r
         bad == r.res \in {"SPIN", "ub"} \/ f.lock \/ (r.res = "OK" /\ ~isEnd)
         h2 == Append(hist, c)
     IN /\ hist' = h2 /\ cid' = cid /\ q' = r.q /\ d' = r.d
        /\ pf' = IF st = "failed" THEN pf + 1 ELSE 0
        /\ st' = IF bad \/ r.res = "wide" THEN "stop"
                 ELSE IF st = "failed" THEN (IF r.res = "FAIL" THEN "failed" ELSE "stop")
                 ELSE IF r.res = "next" THEN "run"
                 ELSE IF r.res = "FAIL" THEN "failed"
                 ELSE "stop"                       \* DONE / FINISH_x : afterwards unconstrained
        /\ (r.res = "SPIN") => PrintT("@@" \o ToJson([kind |-> "SPIN", cid |-> cid, hist |-> h2, q |-> q]))
        /\ f.lock => PrintT("@@" \o ToJson([kind |-> "YIELDLOCK", cid |-> cid, hist |-> h2, codes |-> f.codes]))
        /\ (r.res = "OK" /\ ~isEnd) => PrintT("@@" \o ToJson([kind |-> "STALL", cid |-> cid, hist |-> h2, q |-> q, why |-> r.why]))
        /\ (r.res = "ub") => PrintT("@@" \o ToJson([kind |-> "UB", cid |-> cid, hist |-> h2, why |-> r.why]))
        /\ (st = "failed" /\ r.res \notin {"FAIL", "wide", "ub", "SPIN"}) =>
              PrintT("@@" \o ToJson([kind |-> "FAILNOTABS", cid |-> cid, hist |-> h2, got |-> r.res, isend |-> isEnd]))
        /\ (r.res \notin {"ub", "wide", "SPIN"} /\ ~CapInv(M, r.d)) =>
              PrintT("@@" \o ToJson([kind |-> "CAP", cid |-> cid, hist |-> h2, d |-> r.d]))

Next == Start \/ \E c \in Cases[cid].syms : Sym(c)

Spec == Init /\ [][Next]_vars
=============================================================================
