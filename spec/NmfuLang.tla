------------------------------- MODULE NmfuLang -------------------------------
(***************************************************************************)
(* The procedural reading of an nmfu program (docs/user-ref/parser.md):    *)
(* the source-level semantics the compiled machine must implement (C01).   *)
(*                                                                         *)
(* A program is a statement list produced by an independent front end      *)
(* (generator AST, or the lark parse tree - never nmfu's ParseCtx):        *)
(*   [t |-> "match", r |-> term, app |-> "" | var]     match / `var += m`  *)
(*   [t |-> "wait", r |-> term]                                            *)
(*   [t |-> "act", a |-> action]      hook / set / setstr / delete /       *)
(*                                    appendc in the machine's action form *)
(*   [t |-> "break", id] [t |-> "finish", code] [t |-> "yield", code]      *)
(*   [t |-> "loop", id, b] [t |-> "opt", b]                                *)
(*   [t |-> "case", greedy, cl |-> <<[r, b, prio]>>, hasels, eb]           *)
(*   [t |-> "try", b, nomatch, oos, h]                                     *)
(*   [t |-> "foreach", b, acts |-> <<action>>]                             *)
(*   [t |-> "if", pure, br |-> <<[cond, b]>>, eb]                          *)
(*                                                                         *)
(* A configuration is [K, d, st, x]: continuation stack (head = innermost),*)
(* data store (same cells as NmfuMachine, so snapshots compare directly),  *)
(* status "run" | "fail" | "done" | "fin" (x = code) | "zp" | "ub"|"wide". *)
(*                                                                         *)
(* Go(cfg, c, ph, ...) is the set of <<events, cfg', flags>> outcomes of   *)
(* processing symbol c.  It is nondeterministic exactly where the language *)
(* leaves timing open:                                                     *)
(*  - after a byte was consumed the run may stop in front of any action    *)
(*    statement; the rest is then performed when the next symbol arrives   *)
(*    (an action between two consumed bytes may run with either);          *)
(*  - actions pending when an error strikes may or may not have run: a     *)
(*    suffix of the pending actions may be dropped if an error is raised   *)
(*    while that same symbol is processed.                                 *)
(***************************************************************************)
EXTENDS NmfuMachine, NmfuRegex

\* ---------------- frames ----------------
FS(s) == [f |-> "S", s |-> s]                                   \* rest of a statement list
FL(id, b) == [f |-> "L", id |-> id, b |-> b]                    \* loop marker (body is running above it)
FT(nm, oos, h) == [f |-> "T", nm |-> nm, oos |-> oos, h |-> h]  \* try marker
FE(acts) == [f |-> "E", acts |-> acts]                          \* foreach marker
FM(S, app) == [f |-> "M", S |-> S, app |-> app]                 \* active matcher
FW(S0, S) == [f |-> "W", S0 |-> S0, S |-> S]                    \* active wait (S0 = pattern start)
FC(cl, greedy, hasels, eb) == [f |-> "C", cl |-> cl, greedy |-> greedy, hasels |-> hasels, eb |-> eb]

Cfg(K, d, st, x) == [K |-> K, d |-> d, st |-> st, x |-> x]
Push(x, K) == <<x>> \o K

IsAct(s) == s.t \in {"act", "break", "finish", "yield"} \/ (s.t = "if" /\ s.pure)

\* ---------------- control-only steps ----------------
\* pop finished lists, loop back edges, enter loop / try / foreach / impure if: until an action, a statement that
\* needs a symbol, or an active matcher is on top
RECURSIVE Settle(_, _, _)
Settle(M, c, fuel) ==
  IF fuel = 0 THEN [c EXCEPT !.st = "zp"]
  ELSE IF c.st # "run" THEN c
  ELSE IF c.K = <<>> THEN [c EXCEPT !.st = "done"]
  ELSE LET top == Head(c.K) rest == Tail(c.K) IN
    IF top.f = "S" THEN
       IF top.s = <<>> THEN Settle(M, [c EXCEPT !.K = rest], fuel - 1)
       ELSE LET s == Head(top.s) K1 == Push(FS(Tail(top.s)), rest) IN
         CASE s.t = "loop" -> Settle(M, [c EXCEPT !.K = Push(FS(s.b), Push(FL(s.id, s.b), K1))], fuel - 1)
           [] s.t = "try" -> Settle(M, [c EXCEPT !.K = Push(FS(s.b), Push(FT(s.nomatch, s.oos, s.h), K1))], fuel - 1)
           [] s.t = "foreach" -> Settle(M, [c EXCEPT !.K = Push(FS(s.b), Push(FE(s.acts), K1))], fuel - 1)
           [] s.t = "if" /\ ~s.pure ->
                LET p == FirstTrue(M, s.br, 1, c.d, 0) IN
                IF p.s # "ok" THEN [c EXCEPT !.st = p.s]
                ELSE Settle(M, [c EXCEPT !.K = Push(FS(IF p.j = 0 THEN s.eb ELSE s.br[p.j].b), K1)], fuel - 1)
           \* a match whose only word is the empty one (/x{0,0}/) needs no symbol: it is over at once
           [] s.t = "match" /\ Finished({s.r}) -> Settle(M, [c EXCEPT !.K = K1], fuel - 1)
           [] OTHER -> c
    ELSE IF top.f = "L" THEN Settle(M, [c EXCEPT !.K = Push(FS(top.b), c.K)], fuel - 1)     \* next iteration
    ELSE IF top.f \in {"T", "E"} THEN Settle(M, [c EXCEPT !.K = rest], fuel - 1)             \* block completed
    ELSE c

ActionOnTop(c) == c.st = "run" /\ c.K # <<>> /\ Head(c.K).f = "S" /\ Head(c.K).s # <<>> /\ IsAct(Head(Head(c.K).s))

RECURSIVE BreakTo(_, _)
BreakTo(K, id) == IF K = <<>> THEN <<>>
                  ELSE IF Head(K).f = "L" /\ Head(K).id = id THEN Tail(K) ELSE BreakTo(Tail(K), id)

\* innermost enclosing try frame that handles the reason
RECURSIVE FindTry(_, _)
FindTry(K, reason) == IF K = <<>> THEN <<>>
                      ELSE IF Head(K).f = "T" /\ (IF reason = "nomatch" THEN Head(K).nm ELSE Head(K).oos) THEN K
                      ELSE FindTry(Tail(K), reason)

\* does the statement list start with symbol c ?  Strong first set (OP3): only explicit patterns count - the `else`
\* clause of a case and the skipping of a wait are fall-backs, which a preceding optional / lookahead construct overrides
\* can the statement list be passed without input ?
RECURSIVE PassList(_)
PassList(ss) == IF ss = <<>> THEN TRUE
                ELSE LET s == Head(ss) IN
                  (CASE s.t = "match" -> Nullable(s.r) [] s.t = "opt" -> TRUE [] IsAct(s) -> TRUE
                     [] s.t \in {"try", "foreach"} -> PassList(s.b) [] OTHER -> FALSE) /\ PassList(Tail(ss))
RECURSIVE Accepts(_, _)
Accepts(ss, c) ==
  IF ss = <<>> THEN FALSE ELSE LET s == Head(ss) IN
  CASE s.t = "match" -> c \in FirstOf(s.r) \/ (Nullable(s.r) /\ Accepts(Tail(ss), c))
    [] s.t = "wait" -> c \in FirstOf(s.r)
    [] s.t = "opt" -> Accepts(s.b, c) \/ Accepts(Tail(ss), c)
    [] s.t = "loop" -> Accepts(s.b, c)
    \* (a try / foreach body made of actions only is passed without input: the symbol may start what follows the block)
    [] s.t \in {"try", "foreach"} -> Accepts(s.b, c) \/ (PassList(s.b) /\ Accepts(Tail(ss), c))
    [] s.t = "case" -> \E i \in DOMAIN s.cl : c \in FirstOf(s.cl[i].r)
    [] s.t = "if" -> (\E i \in DOMAIN s.br : Accepts(s.br[i].b, c)) \/ Accepts(s.eb, c) \/ Accepts(Tail(ss), c)
    [] IsAct(s) -> Accepts(Tail(ss), c)
    [] OTHER -> FALSE

\* OP1 (open point): nothing that needs input follows in the program.  A construct whose end is found by lookahead
\* keeps its mismatch transitions there (there is no following statement to take the symbol), so nmfu raises `nomatch`
\* on a symbol that does not continue it; the procedural reading (the construct simply ends) is admitted as well.
RECURSIVE Trailing(_)
Trailing(K) == IF K = <<>> THEN TRUE
               ELSE LET top == Head(K) IN
                 IF top.f = "S" THEN (\A i \in DOMAIN top.s : IsAct(top.s[i])) /\ Trailing(Tail(K))
                 ELSE IF top.f \in {"T", "E"} THEN Trailing(Tail(K))
                 ELSE FALSE

\* the foreach actions in scope, outermost first
RECURSIVE EachActs(_)
EachActs(K) == IF K = <<>> THEN <<>>
               ELSE EachActs(Tail(K)) \o (IF Head(K).f = "E" THEN Head(K).acts ELSE <<>>)

\* ---------------- one symbol ----------------
\* outcome triple: <<events, configuration, flags>> with flags = [cons (symbol consumed), raised (an error was raised)]
Out(evs, c, cons, raised) == <<evs, c, [cons |-> cons, raised |-> raised]>>

FUELL == 60

RECURSIVE Go(_, _, _, _, _, _, _, _, _)
\* ph: "arr" the symbol has arrived and is not consumed yet; "aft" it was consumed, run what needs no input
\* dn: number of pending actions still to perform before the rest is dropped (-1: never drop)
Go(M, c0, sym, ph, evs, fuel, dn, cons, raised) ==
  LET mode == IF sym = -1 THEN "start" ELSE IF sym = END THEN "end" ELSE "feed"
      last == IF sym = END THEN 255 ELSE IF sym = -1 THEN 0 ELSE sym
      c == Settle(M, c0, FUELL)
      \* transfer control to the innermost enclosing handler for the reason, at the current symbol
      Handle(cc, K2, ev2) ==
        IF K2 = <<>> THEN {Out(ev2, [cc EXCEPT !.st = "fail"], FALSE, TRUE)}
        ELSE IF sym = -1 THEN {Out(ev2, [cc EXCEPT !.K = Push(FS(Head(K2).h), Tail(K2))], FALSE, TRUE)}    \* start(): handler runs on the first symbol
        ELSE Go(M, [cc EXCEPT !.K = Push(FS(Head(K2).h), Tail(K2))], sym, "arr", ev2, fuel - 1, -1, FALSE, TRUE)
      Raise(cc, reason, ev2) == Handle(cc, FindTry(cc.K, reason), ev2)
      \* run the each-character actions in scope, then continue with cont(d, evs)
      Each(cc) == RunActs(M, EachActs(cc.K), 1, cc.d, evs, last, mode)
  IN
  IF fuel = 0 THEN {Out(evs, [c EXCEPT !.st = "zp"], cons, raised)}
  ELSE IF c.st # "run" THEN {Out(evs, c, cons, raised)}          \* done (fell off the end), zp, ub ...
  ELSE IF ActionOnTop(c) THEN
    LET top == Head(c.K) a == Head(top.s) K1 == Push(FS(Tail(top.s)), Tail(c.K))
        perform ==
          CASE a.t = "act" ->
                 LET r == RunActs(M, <<a.a>>, 1, c.d, evs, last, mode) IN
                 IF r.k = "next" THEN Go(M, [c EXCEPT !.K = K1, !.d = r.d], sym, ph, r.ev, fuel - 1, IF dn > 0 THEN dn - 1 ELSE dn, cons, raised)
                 ELSE IF r.k = "ovf" THEN
                      \* out of space: control goes to the handler at the offending symbol (the current one)
                      Handle([c EXCEPT !.d = r.d], FindTry(K1, "oos"), r.ev)
                 ELSE {Out(r.ev, [c EXCEPT !.st = r.k], cons, raised)}
            [] a.t = "break" -> Go(M, [c EXCEPT !.K = BreakTo(c.K, a.id)], sym, ph, evs, fuel - 1, IF dn > 0 THEN dn - 1 ELSE dn, cons, raised)
            [] a.t = "finish" -> {Out(evs, [c EXCEPT !.st = "fin", !.x = IF a.code = "" THEN "DONE" ELSE "FINISH_" \o a.code, !.K = K1], cons, raised)}
            [] a.t = "yield" -> Go(M, [c EXCEPT !.K = K1], sym, ph, Append(evs, [e |-> "yield", code |-> "YIELD_" \o a.code]), fuel - 1,
                                   IF dn > 0 THEN dn - 1 ELSE dn, cons, raised)
            [] a.t = "if" ->
                 LET p == FirstTrue(M, a.br, 1, c.d, last) IN
                 IF p.s # "ok" THEN {Out(evs, [c EXCEPT !.st = p.s], cons, raised)}
                 ELSE Go(M, [c EXCEPT !.K = Push(FS(IF p.j = 0 THEN a.eb ELSE a.br[p.j].b), K1)], sym, ph, evs, fuel - 1, dn, cons, raised)
    IN IF ph = "aft"
       THEN (IF sym = END THEN {} ELSE {Out(evs, c, cons, raised)}) \cup perform   \* timing slack: stop here (there is a next symbol to run with), or go on
       ELSE IF dn = 0 THEN Go(M, [c EXCEPT !.K = K1], sym, ph, evs, fuel - 1, 0, cons, raised)     \* dropped
       ELSE perform
  ELSE IF ph = "aft" THEN {Out(evs, c, cons, raised)}                     \* next statement needs a symbol
  ELSE \* ---- arrival: the top of K needs the symbol ----
    LET top == Head(c.K) rest == Tail(c.K) IN
    IF top.f = "M" THEN
       LET D == PDS(top.S, sym) IN
       IF D # {} THEN
          LET e == Each(c) IN
          IF e.k = "ovf" THEN Raise([c EXCEPT !.d = e.d], "oos", e.ev)
          ELSE IF e.k # "next" THEN {Out(e.ev, [c EXCEPT !.st = e.k], cons, raised)}
          ELSE LET ap == IF top.app = "" THEN AR(e.d, e.ev, "next", 0) ELSE AppendByte(M, e.d, top.app, last, 0, e.ev) IN
               IF ap.k = "ovf" THEN
                  Handle([c EXCEPT !.d = ap.d], FindTry(rest, "oos"), e.ev)
               ELSE IF ap.k # "next" THEN {Out(e.ev, [c EXCEPT !.st = ap.k], cons, raised)}
               ELSE Go(M, [c EXCEPT !.K = IF Finished(D) THEN rest ELSE Push(FM(D, top.app), rest), !.d = ap.d],
                       sym, "aft", e.ev, fuel - 1, -1, TRUE, raised)
       ELSE IF NullS(top.S) THEN Go(M, [c EXCEPT !.K = rest], sym, "arr", evs, fuel - 1, dn, cons, raised)     \* match ends by lookahead
                                  \cup (IF Trailing(rest) THEN Raise([c EXCEPT !.K = rest], "nomatch", evs) ELSE {})
       ELSE Raise([c EXCEPT !.K = rest], "nomatch", evs)
    ELSE IF top.f = "W" THEN
       LET D == PDS(top.S, sym) IN
       IF D # {} \/ (top.S = top.S0 /\ sym # END) THEN
          \* the pattern continues, or (at the pattern start) the symbol is skipped: consumed either way
          LET e == Each(c) IN
          IF e.k = "ovf" THEN Raise([c EXCEPT !.d = e.d], "oos", e.ev)
          ELSE IF e.k # "next" THEN {Out(e.ev, [c EXCEPT !.st = e.k], cons, raised)}
          ELSE Go(M, [c EXCEPT !.K = IF D # {} /\ Finished(D) THEN rest ELSE Push(FW(top.S0, IF D = {} THEN top.S0 ELSE D), rest), !.d = e.d],
                  sym, "aft", e.ev, fuel - 1, -1, TRUE, raised)
       ELSE IF NullS(top.S) THEN Go(M, [c EXCEPT !.K = rest], sym, "arr", evs, fuel - 1, dn, cons, raised)
                                  \cup (IF Trailing(rest) THEN Go(M, [c EXCEPT !.K = Push(FW(top.S0, top.S0), rest)], sym, "arr", evs, fuel - 1, dn, cons, raised) ELSE {})
       ELSE IF top.S = top.S0 THEN {Out(evs, c, cons, raised)}           \* end-of-input during a wait: nothing happens
       ELSE Go(M, [c EXCEPT !.K = Push(FW(top.S0, top.S0), rest)], sym, "arr", evs, fuel - 1, dn, cons, raised)   \* restart
    ELSE IF top.f = "C" THEN
       LET D == [i \in DOMAIN top.cl |-> PDS(top.cl[i].S, sym)]
           alive == {i \in DOMAIN top.cl : D[i] # {}} IN
       IF alive # {} THEN
          LET e == Each(c)
              fin == {i \in alive : NullS(D[i])}
              best == CHOOSE i \in fin : \A j \in fin : top.cl[j].prio <= top.cl[i].prio
              decided == fin # {} /\ \A i \in alive : ~CanCont(D[i])
              cl2 == [i \in DOMAIN top.cl |-> [top.cl[i] EXCEPT !.S = D[i]]]
          IN IF e.k = "ovf" THEN Raise([c EXCEPT !.d = e.d], "oos", e.ev)
             ELSE IF e.k # "next" THEN {Out(e.ev, [c EXCEPT !.st = e.k], cons, raised)}
             ELSE IF decided /\ Cardinality({i \in fin : top.cl[i].prio = top.cl[best].prio}) > 1
                  THEN {Out(e.ev, [c EXCEPT !.st = "amb"], TRUE, raised)}        \* several clauses match and none is preferred
             ELSE Go(M, [c EXCEPT !.K = IF decided THEN Push(FS(top.cl[best].b), rest) ELSE Push([top EXCEPT !.cl = cl2], rest), !.d = e.d],
                     sym, "aft", e.ev, fuel - 1, -1, TRUE, raised)
       ELSE LET fin == {i \in DOMAIN top.cl : NullS(top.cl[i].S)}
                best == CHOOSE i \in fin : \A j \in fin : top.cl[j].prio <= top.cl[i].prio IN
            IF fin # {} /\ Cardinality({i \in fin : top.cl[i].prio = top.cl[best].prio}) > 1
            THEN {Out(evs, [c EXCEPT !.st = "amb"], cons, raised)}
            ELSE IF fin # {} THEN Go(M, [c EXCEPT !.K = Push(FS(top.cl[best].b), rest)], sym, "arr", evs, fuel - 1, dn, cons, raised)
                             \cup (IF Trailing(Push(FS(top.cl[best].b), rest))
                                   THEN (IF top.hasels THEN Go(M, [c EXCEPT !.K = Push(FS(top.eb), rest)], sym, "arr", evs, fuel - 1, dn, cons, raised)
                                         ELSE Raise([c EXCEPT !.K = rest], "nomatch", evs))
                                   ELSE {})
            ELSE IF top.hasels THEN Go(M, [c EXCEPT !.K = Push(FS(top.eb), rest)], sym, "arr", evs, fuel - 1, dn, cons, raised)
            ELSE Raise([c EXCEPT !.K = rest], "nomatch", evs)
    ELSE \* a statement list whose head needs a symbol
       LET s == Head(top.s) K1 == Push(FS(Tail(top.s)), rest) IN
       CASE s.t = "match" -> Go(M, [c EXCEPT !.K = Push(FM({s.r}, s.app), K1)], sym, "arr", evs, fuel - 1, dn, cons, raised)
         [] s.t = "wait" -> Go(M, [c EXCEPT !.K = Push(FW({s.r}, {s.r}), K1)], sym, "arr", evs, fuel - 1, dn, cons, raised)
         [] s.t = "opt" -> IF Accepts(s.b, sym) THEN Go(M, [c EXCEPT !.K = Push(FS(s.b), K1)], sym, "arr", evs, fuel - 1, dn, cons, raised)
                            ELSE Go(M, [c EXCEPT !.K = K1], sym, "arr", evs, fuel - 1, dn, cons, raised)
                                 \cup (IF Trailing(K1) THEN Raise([c EXCEPT !.K = K1], "nomatch", evs) ELSE {})
         [] s.t = "case" -> Go(M, [c EXCEPT !.K = Push(FC([i \in DOMAIN s.cl |-> [S |-> {s.cl[i].r}, b |-> s.cl[i].b, prio |-> s.cl[i].prio]],
                                                           s.greedy, s.hasels, s.eb), K1)], sym, "arr", evs, fuel - 1, dn, cons, raised)

\* ---------------- one-byte-lookahead ambiguity (C09) ----------------
\* first symbols (strong first sets) of what follows on the continuation stack, and whether it can be passed without input
\* The same first sets with the context a `break` needs: cont = "c starts what follows this list", aft = the set of loop ids such that c
\* starts what follows that loop.  A branch that leaves a loop with break hands the symbol to the statement after the loop; a finish hands
\* it to nobody.
RECURSIVE AccB(_, _, _, _)
AccB(ss, c, cont, aft) ==
  IF ss = <<>> THEN cont ELSE
  LET s == Head(ss) rest == AccB(Tail(ss), c, cont, aft) IN
  CASE s.t = "match" -> c \in FirstOf(s.r) \/ (Nullable(s.r) /\ rest)
    [] s.t = "wait" -> c \in FirstOf(s.r)
    [] s.t = "opt" -> AccB(s.b, c, rest, aft) \/ rest
    [] s.t = "loop" -> AccB(s.b, c, FALSE, IF rest THEN aft \cup {s.id} ELSE aft \ {s.id})
    [] s.t \in {"try", "foreach"} -> AccB(s.b, c, rest, aft)
    [] s.t = "case" -> \E i \in DOMAIN s.cl : c \in FirstOf(s.cl[i].r)
    [] s.t = "if" -> (\E i \in DOMAIN s.br : AccB(s.br[i].b, c, rest, aft)) \/ AccB(s.eb, c, rest, aft)
    [] s.t = "break" -> s.id \in aft
    [] s.t = "finish" -> FALSE
    [] IsAct(s) -> rest
    [] OTHER -> FALSE

LoopIds(K) == {K[i].id : i \in {j \in DOMAIN K : K[j].f = "L"}}
RECURSIVE AccK(_, _), AftK(_, _)
AftK(K, c) == {id \in LoopIds(K) : AccK(BreakTo(K, id), c)}
AccK(K, c) ==
  IF K = <<>> THEN FALSE
  ELSE LET top == Head(K) IN
    CASE top.f = "S" -> AccB(top.s, c, AccK(Tail(K), c), AftK(K, c))
      [] top.f = "L" -> AccB(top.b, c, FALSE, AftK(K, c))       \* the loop goes round: the body starts again
      [] top.f \in {"T", "E"} -> AccK(Tail(K), c)
      [] OTHER -> FALSE
RECURSIVE AccKOld(_, _)
AccKOld(K, c) ==
  IF K = <<>> THEN FALSE
  ELSE LET top == Head(K) IN
    CASE top.f = "S" -> Accepts(top.s, c) \/ (PassList(top.s) /\ AccKOld(Tail(K), c))
      [] top.f = "L" -> Accepts(top.b, c)
      [] top.f \in {"T", "E"} -> AccKOld(Tail(K), c)
      [] OTHER -> FALSE
\* cfg is settled and has no pending action.  TRUE iff symbol c admits two continuations at this point.
Ambiguous(c, sym) ==
  IF c.st # "run" \/ c.K = <<>> THEN FALSE
  ELSE LET top == Head(c.K) rest == Tail(c.K) IN
    CASE top.f = "M" -> NullS(top.S) /\ PDS(top.S, sym) # {} /\ AccK(rest, sym)
      [] top.f = "W" -> NullS(top.S) /\ PDS(top.S, sym) # {} /\ AccK(rest, sym)
      [] top.f = "C" ->
           LET fin == {i \in DOMAIN top.cl : NullS(top.cl[i].S)}
               live == {i \in DOMAIN top.cl : top.cl[i].S # {}}
               maxp == IF fin = {} THEN 0 ELSE top.cl[CHOOSE i \in fin : \A j \in fin : top.cl[j].prio <= top.cl[i].prio].prio
               cont == \E i \in live : PDS(top.cl[i].S, sym) # {}
           IN IF top.greedy
              \* a greedy case keeps consuming while any pattern can continue (maximal munch is its documented meaning - the lexer of
              \* example/lexer.nmfu relies on it): a symbol that continues a pattern is never a candidate start of what follows
              THEN Cardinality({i \in fin : top.cl[i].prio = maxp}) > 1                     \* no unique highest priority
              ELSE \/ Cardinality(fin) > 1                                                  \* a string matches two clauses
                   \/ (fin # {} /\ Cardinality(live) > 1)                                   \* matches one while another could continue
                   \/ (fin # {} /\ cont /\ \E i \in fin : AccK(Push(FS(top.cl[i].b), rest), sym))
      [] top.f = "S" /\ top.s # <<>> /\ Head(top.s).t = "opt" ->
           Accepts(Head(top.s).b, sym) /\ AccK(Push(FS(Tail(top.s)), rest), sym)
      [] OTHER -> FALSE

\* all outcomes of symbol sym arriving in configuration c
MaxDrop == 2
\* the drop variants only matter when an error is raised while the symbol is processed
LangByte(M, c, sym) ==
  LET base == Go(M, c, sym, "arr", <<>>, FUELL, -1, FALSE, FALSE) IN
  IF \E o \in base : o[3].raised
  THEN base \cup {o \in UNION {Go(M, c, sym, "arr", <<>>, FUELL, n, FALSE, FALSE) : n \in 0..MaxDrop} : o[3].raised}
  ELSE base

\* <parser>_start: everything that needs no input, with the same timing slack
LangStart(M, body) == Go(M, Cfg(<<FS(body)>>, InitStore(M), "run", ""), -1, "aft", <<>>, FUELL, -1, FALSE, FALSE)
=============================================================================
