------------------------------- MODULE Conform -------------------------------
(***************************************************************************)
(* Joint exploration of the compiled machine and the source semantics      *)
(* (properties C01, C08, C13, C16, C17 and the reject side of C04).        *)
(*                                                                         *)
(* Cases[cid] = [mi, body (Lang statement list), syms, maxlen].            *)
(* One step = one input symbol.  The machine side is deterministic         *)
(* (ByteStep of the exported DFA, re-invoked after yields as a conforming  *)
(* caller does).  The source side is the *set* L of Lang configurations    *)
(* still consistent with everything the machine has emitted: TLC infers    *)
(* the specification's nondeterministic timing choices exactly as in trace *)
(* validation with unlogged variables.  The machine is explained as long   *)
(* as L is not empty.                                                      *)
(*                                                                         *)
(* Compared per symbol: the sequence of strict events (hook calls with     *)
(* name, $last value and a snapshot of every output; yields with code),    *)
(* the status (continue / FAIL / DONE / finish code) and, on termination,  *)
(* the final outputs.                                                      *)
(***************************************************************************)
EXTENDS NmfuLang, Json, CasesData

VARIABLES cid, q, d, L, st, hist
vars == <<cid, q, d, L, st, hist>>
View == <<cid, q, d, L, st>>
Bound == Len(hist) <= Cases[cid].maxlen

M == Machines[Cases[cid].mi]
MaxYields == 8

\* one symbol on the machine side, re-invoking feed while a yield leaves the byte unconsumed
RECURSIVE MFeed(_, _, _, _, _)
MFeed(qq, dd, c, evs, k) ==
  LET r == IF c = END THEN EndStep(M, qq, dd) ELSE ByteStep(M, qq, dd, c)
      ev2 == evs \o r.ev IN
  IF ~r.y THEN [r |-> r, evs |-> ev2, lock |-> FALSE]
  ELSE LET ev3 == Append(ev2, [e |-> "yield", code |-> r.res]) IN
       \* (a yield returned by <parser>_end is treated like one returned by feed: the caller calls end again)
       IF r.adv = 1 /\ c # END THEN [r |-> [r EXCEPT !.res = "next"], evs |-> ev3, lock |-> FALSE]
       ELSE IF k = 0 THEN [r |-> r, evs |-> ev3, lock |-> TRUE]
       ELSE MFeed(r.q, r.d, c, ev3, k - 1)

\* events are compared on what the API exposes at a hook call (contents up to the length, not spare cells / allocation)
NormEv(evs) == [i \in DOMAIN evs |-> IF evs[i].e = "hook" THEN [evs[i] EXCEPT !.snap = Obs(@)] ELSE evs[i]]

Init == cid \in 1..Len(Cases) /\ q = -1 /\ d = <<>> /\ L = {} /\ st = "start" /\ hist = <<>>

\* does Lang outcome o explain the machine's status mres (data md) on this symbol ?
Explains(mres, md, o, isEnd) ==
  LET l == o[2] fl == o[3] IN
  IF ~isEnd THEN
       \/ mres = "next" /\ l.st \in {"run", "done"}
       \/ mres = "FAIL" /\ (l.st = "fail" \/ (l.st = "done" /\ ~fl.cons))                 \* OP1: symbol after the end of the program
       \/ mres = "DONE" /\ l.st = "done" /\ Obs(l.d) = Obs(md)
       \/ mres = "DONE" /\ l.st = "fin" /\ l.x = "DONE" /\ Obs(l.d) = Obs(md)
       \/ mres # "DONE" /\ l.st = "fin" /\ l.x = mres /\ Obs(l.d) = Obs(md)
  ELSE \/ mres = "FAIL" /\ l.st \in {"run", "fail"}                                        \* incomplete input merely reports FAIL
       \/ mres = "FAIL" /\ l.st = "done" /\ ~fl.cons                                       \* OP1/OP4: trailing lookahead construct, strict done
       \/ mres = "DONE" /\ l.st = "done" /\ Obs(l.d) = Obs(md)
       \/ mres = "DONE" /\ l.st = "fin" /\ l.x = "DONE" /\ Obs(l.d) = Obs(md)
       \/ mres # "DONE" /\ l.st = "fin" /\ l.x = mres /\ Obs(l.d) = Obs(md)

Undecided(res) == res \in {"ub", "wide", "SPIN", "OK"}
Summary(cand) == {[ev |-> o[1], st |-> o[2].st, x |-> o[2].x, cons |-> o[3].cons] : o \in cand}

Start ==
  /\ st = "start"
  /\ LET r == StartStep(M)
         cand == LangStart(M, Cases[cid].body)
         und == r.res \in {"ub", "wide"} \/ \E o \in cand : o[2].st \in {"ub", "wide"}
         ok == {o \in cand : NormEv(o[1]) = NormEv(r.ev) /\ (IF r.res = "OK" THEN o[2].st \in {"run", "done"}
                                             ELSE o[2].st = "fin" /\ o[2].x = r.res /\ Obs(o[2].d) = Obs(r.d))}
     IN /\ q' = r.q /\ d' = r.d /\ UNCHANGED <<cid, hist>>
        /\ L' = {o[2] : o \in ok}
        /\ st' = IF und THEN "und" ELSE IF ok = {} THEN "viol" ELSE IF r.res = "OK" THEN "run" ELSE "end"
        /\ (und => PrintT("@@" \o ToJson([kind |-> "UNDECIDED", cid |-> cid, hist |-> hist, why |-> r.res])))
        /\ (~und /\ ok = {}) => PrintT("@@" \o ToJson([kind |-> "VIOL", cid |-> cid, hist |-> hist, at |-> "start", mres |-> r.res,
                                                       mev |-> r.ev, md |-> r.d, lang |-> Summary(cand)]))

Sym(c) ==
  /\ st = "run"
  /\ LET isEnd == c = END
         f == MFeed(q, d, c, <<>>, MaxYields)
         r == f.r
         cand == UNION {LangByte(M, l, c) : l \in L}
         und == Undecided(r.res) \/ f.lock \/ \E o \in cand : o[2].st \in {"ub", "wide", "amb"}
         zp == \E o \in cand : o[2].st = "zp"
         ok == {o \in cand : NormEv(o[1]) = NormEv(f.evs) /\ Explains(r.res, r.d, o, isEnd)}
         h2 == Append(hist, c)
     IN /\ q' = r.q /\ d' = r.d /\ hist' = h2 /\ cid' = cid
        /\ L' = {o[2] : o \in ok}
        /\ st' = IF und \/ zp THEN "und" ELSE IF ok = {} THEN "viol" ELSE IF r.res = "next" /\ ~isEnd THEN "run" ELSE "end"
        /\ (und => PrintT("@@" \o ToJson([kind |-> "UNDECIDED", cid |-> cid, hist |-> h2, why |-> IF f.lock THEN "yieldlock" ELSE r.res])))
        /\ (zp => PrintT("@@" \o ToJson([kind |-> "ZEROPROGRESS", cid |-> cid, hist |-> h2])))
        /\ (~und /\ ~zp /\ ok = {}) => PrintT("@@" \o ToJson([kind |-> "VIOL", cid |-> cid, hist |-> h2, at |-> "sym", mres |-> r.res,
                                                              mev |-> f.evs, md |-> r.d, lang |-> Summary(cand)]))
        /\ (~und /\ ~zp /\ ok # {} /\ \E o \in ok : o[2].st = "done" /\ ~o[3].cons /\ r.res = "FAIL") =>
              PrintT("@@" \o ToJson([kind |-> "OP1", cid |-> cid, hist |-> h2]))

Next == Start \/ \E c \in Cases[cid].syms : Sym(c)
Spec == Init /\ [][Next]_vars
=============================================================================
