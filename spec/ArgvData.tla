------------------------------- MODULE ArgvData -------------------------------
\* placeholder: every C19 run generates its own ArgvData (alphabet of argv strings with their lexical facts)
Alphabet == <<[cls |-> "empty", o |-> "", stem |-> "", v |-> 1, self |-> 1]>>
Values == <<[txt |-> "", int |-> [ok |-> FALSE, n |-> 0], dot |-> FALSE, fshort |-> [name |-> "", val |-> TRUE],
             flong |-> [ok |-> TRUE, name |-> "", val |-> TRUE], dumps |-> [ok |-> TRUE, kinds |-> <<"">>]]>>
K == 1
=============================================================================
