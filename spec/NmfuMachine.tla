----------------------------- MODULE NmfuMachine -----------------------------
(***************************************************************************)
(* What a compiled nmfu DFA *means*: the machine `--dump dfa` displays,    *)
(* executed under the documented API protocol.                             *)
(*                                                                         *)
(* A machine M is the record exported from DfaCompileCtx.dfa:              *)
(*   M.states : sequence of [kind, acc, trans]   (state index = position-1)*)
(*   transition: [on (set of bytes), els, end, tgt (index | -9), fall, err, *)
(*               acts, cond, immdone, early]                               *)
(*   M.start, M.fail, M.sacts (start actions), M.decl (name -> declaration),*)
(*   M.names (sequence of output names), M.cfg (resolved option record)     *)
(*                                                                         *)
(* The data store d maps an output name to a cell:                         *)
(*   scalars  [v |-> n]                                                    *)
(*   strings  [buf |-> <<size bytes>>, len |-> n, al |-> "inline"|"heap"|  *)
(*             "null"|"freed"]      (raw{T} is an unterminated string of    *)
(*             sizeof(T) cells)                                            *)
(* Buffers are modelled cell by cell so that stale bytes, terminators and  *)
(* allocation state are part of the specification (C03).                   *)
(***************************************************************************)
EXTENDS NmfuExpr, TLC, FiniteSets

END == 256          \* the end-of-input symbol
TERMINATING == -9   \* target removed as unreachable (its actions always override it)

Zeros(n) == [i \in 1..n |-> 0]

IsBuf(D) == D.type \in {"str", "raw"}
Term(D)  == D.type = "str" /\ D.term
Cap(D)   == IF Term(D) THEN D.size - 1 ELSE D.size
Dyn(M, D) == D.type = "str" /\ M.cfg.dyn

Env(M, d, last) == [d |-> d, decl |-> M.decl, last |-> last, cfg |-> M.cfg]

\* ---------------- initial store: what <parser>_start() establishes before the start actions -----
WriteAt(buf, off, bytes) == [i \in 1..Len(buf) |-> IF i > off /\ i <= off + Len(bytes) THEN bytes[i - off] ELSE buf[i]]

InitCell(M, D) ==
  IF IsBuf(D) THEN
     IF D.hasdef
     THEN [buf |-> WriteAt(Zeros(D.size), 0, IF Term(D) THEN D.def \o <<0>> ELSE D.def),
           len |-> Len(D.def), al |-> IF Dyn(M, D) THEN "heap" ELSE "inline"]
     ELSE [buf |-> Zeros(D.size), len |-> 0,
           al |-> IF Dyn(M, D) THEN (IF M.cfg.ondemand THEN "null" ELSE "heap") ELSE "inline"]
  ELSE IF D.hasdef THEN StoreCell(IF D.bigdef THEN [s |-> "big", v |-> 0, t |-> "long", w |-> D.defw] ELSE Ok(D.def, "int"), D).cell
  ELSE [v |-> 0]

InitStore(M) == [n \in DOMAIN M.decl |-> InitCell(M, M.decl[n])]

\* a default that does not fit its buffer is written out of bounds by start() (C03)
DefaultsFit(M) == \A n \in DOMAIN M.decl : LET D == M.decl[n] IN
                     (IsBuf(D) /\ D.hasdef) => Len(D.def) <= Cap(D)

\* ---------------- actions ----------------
\* result of running an action list:
\*   k = "next"  ran to the end
\*       "ret"   returned from the API function with code x (finish)
\*       "yld"   returned from the API function with yield code x
\*       "ovf"   out-of-space: abandon the list, continue dispatching the SAME symbol in state x
\*       "brk"   break: abandon the list, target state becomes x, transition epilogue still applies
\*       "ub" / "wide"  evaluation left the defined / modelled range (x = reason)
AR(d, ev, k, x) == [d |-> d, ev |-> ev, k |-> k, x |-> x]

Malloc(cell, D) == [cell EXCEPT !.buf = Zeros(D.size), !.al = "heap"]
Accessible(cell) == cell.al \in {"inline", "heap"}

\* the allocate-on-demand guard emitted in front of writes: `if (!ptr) ptr = malloc(size)`.  It is emitted for
\* strings without a default value (those with one are allocated by start()) and, when delete may free buffers,
\* for every string.  needdyn: the append templates additionally require the string to be dynamic.
MayBeNull(M, D) == M.cfg.ondemand /\ (~D.hasdef \/ M.cfg.delfree)
OnDemand(M, D, cell, needdyn) ==
  IF MayBeNull(M, D) /\ (~needdyn \/ Dyn(M, D)) /\ cell.al = "null" THEN Malloc(cell, D) ELSE cell

AppendByte(M, d, name, b, ovf, ev) ==
  LET D == M.decl[name]
      c0 == OnDemand(M, D, d[name], TRUE) IN
  IF c0.len = Cap(D) THEN AR([d EXCEPT ![name] = c0], ev, "ovf", ovf)
  ELSE IF ~Accessible(c0) THEN AR(d, ev, "ub", "write through null/freed pointer")
  ELSE LET b1 == WriteAt(c0.buf, c0.len, <<b % 256>>)
           b2 == IF Term(D) THEN WriteAt(b1, c0.len + 1, <<0>>) ELSE b1
       IN AR([d EXCEPT ![name] = [c0 EXCEPT !.buf = b2, !.len = c0.len + 1]], ev, "next", 0)

RECURSIVE RunActs(_, _, _, _, _, _, _)
RECURSIVE RunBranches(_, _, _, _, _, _, _)
\* mode: "feed" | "start" | "end"
RunActs(M, acts, i, d, ev, last, mode) ==
  IF i > Len(acts) THEN AR(d, ev, "next", 0)
  ELSE LET a == acts[i]
           env == Env(M, d, last)
           go(d2, ev2) == RunActs(M, acts, i + 1, d2, ev2, last, mode) IN
    CASE a.op = "hook" ->
           go(d, Append(ev, [e |-> "hook", n |-> a.name, iv |-> IF mode = "start" THEN 0 ELSE last, snap |-> d]))
      [] a.op = "set" ->
           LET x == StoreCell(EvalC(a.expr, env), M.decl[a.var]) IN
           IF x.s # "ok" THEN AR(d, ev, x.s, "set " \o a.var) ELSE go([d EXCEPT ![a.var] = x.cell], ev)
      [] a.op = "setstr" ->
           LET D == M.decl[a.var]
               c0 == OnDemand(M, D, d[a.var], FALSE)
               bytes == IF Term(D) THEN a.bytes \o <<0>> ELSE a.bytes IN
           IF ~Accessible(c0) THEN AR(d, ev, "ub", "write through null/freed pointer")
           ELSE IF Len(bytes) > D.size THEN AR(d, ev, "ub", "memcpy beyond buffer")
           ELSE go([d EXCEPT ![a.var] = [c0 EXCEPT !.buf = WriteAt(c0.buf, 0, bytes), !.len = Len(a.bytes)]], ev)
      [] a.op = "delete" ->
           LET D == M.decl[a.var] c0 == d[a.var] IN
           IF M.cfg.ondemand /\ M.cfg.delfree /\ mode # "start" /\ Dyn(M, D)
           THEN go([d EXCEPT ![a.var] = [c0 EXCEPT !.al = "null", !.len = 0, !.buf = Zeros(D.size)]], ev)
           ELSE IF Term(D)
                THEN (IF M.cfg.ondemand /\ Dyn(M, D) /\ ~D.hasdef /\ c0.al = "null"
                      THEN go([d EXCEPT ![a.var] = [c0 EXCEPT !.len = 0]], ev)      \* guarded: no buffer yet, nothing to terminate
                      ELSE IF ~Accessible(c0) THEN AR(d, ev, "ub", "write through null/freed pointer")
                      ELSE go([d EXCEPT ![a.var] = [c0 EXCEPT !.buf = WriteAt(c0.buf, 0, <<0>>), !.len = 0]], ev))
                ELSE go([d EXCEPT ![a.var] = [c0 EXCEPT !.len = 0]], ev)
      [] a.op = "append" ->
           LET r == AppendByte(M, d, a.var, last, a.ovf, ev) IN
           IF r.k = "next" THEN go(r.d, ev) ELSE r
      [] a.op = "appendc" ->
           LET x == EvalC(a.expr, env) IN
           IF x.s \notin {"ok", "big"} THEN
              \* the capacity test precedes evaluation in the emitted code
              (LET D == M.decl[a.var] c0 == OnDemand(M, D, d[a.var], TRUE) IN
               IF c0.len = Cap(D) THEN AR([d EXCEPT ![a.var] = c0], ev, "ovf", a.ovf) ELSE AR(d, ev, x.s, "appendc " \o a.var))
           ELSE LET r == AppendByte(M, d, a.var, LowByte(x), a.ovf, ev) IN
                IF r.k = "next" THEN go(r.d, ev) ELSE r
      [] a.op = "finish" -> AR(d, ev, "ret", IF a.code = "" THEN "DONE" ELSE "FINISH_" \o a.code)
      [] a.op = "yield"  -> AR(d, ev, "yld", "YIELD_" \o a.code)
      [] a.op = "cond" ->
           LET r == RunBranches(M, a.branches, 1, d, ev, last, mode) IN
           IF r.k = "next" THEN go(r.d, r.ev) ELSE r
      [] a.op = "break" ->
           LET r == RunActs(M, a.sub, 1, d, ev, last, mode) IN
           IF r.k = "next" THEN AR(r.d, r.ev, "brk", a.to) ELSE r

CondVal(M, c, d, last) ==
  CASE c.k = "else" -> Ok(1, "int")
    [] c.k = "const" -> Ok(IF c.v THEN 1 ELSE 0, "int")
    [] c.k = "expr" -> LET x == EvalC(c.e, Env(M, d, last)) IN IF x.s = "big" THEN Ok(1, "int") ELSE x

RunBranches(M, bs, j, d, ev, last, mode) ==
  IF j > Len(bs) THEN AR(d, ev, "next", 0)
  ELSE LET x == CondVal(M, bs[j].cond, d, last) IN
    IF x.s # "ok" THEN AR(d, ev, x.s, "condition")
    ELSE IF x.v # 0 THEN RunActs(M, bs[j].acts, 1, d, ev, last, mode)
    ELSE RunBranches(M, bs, j + 1, d, ev, last, mode)

\* ---------------- transition lookup (DFState.__getitem__ as the emitted if-chain realises it) ----
NoT == [tgt |-> -1]
Matches(t, c) == IF c = END THEN t.end ELSE c \in t.on
Pick(s, c) ==
  LET ts == s.trans
      els == {i \in 1..Len(ts) : ts[i].els}
      \* the first transition carrying Else is emitted last (as the final `else`); if it also
      \* lists c explicitly it is still only reached there
      e1  == IF els = {} THEN 0 ELSE CHOOSE i \in els : \A j \in els : i <= j
      hit == {i \in 1..Len(ts) : i # e1 /\ Matches(ts[i], c)}
  IN IF hit # {} THEN ts[CHOOSE i \in hit : \A j \in hit : i <= j]
     ELSE IF e1 # 0 THEN ts[e1]
     ELSE NoT

\* ---------------- one symbol ----------------
\* res: "next"  the byte was consumed, machine is in state q, ready for the following byte
\*      "OK"    no transition applied in a non-accepting state: feed returns OK *without* consuming
\*      "DONE" | "FAIL" | "FINISH_x" | "YIELD_x"  the API call returns this code
\*      "SPIN"  fuel exhausted (a cycle of non-consuming moves)
\*      "ub" | "wide"  see NmfuExpr
\* adv: 1 iff the start pointer has moved past this byte when the call returns
\* y  : TRUE iff res is a yield code (the caller is expected to re-invoke feed at the reported position)
Res(q, d, ev, res, adv, why) == [q |-> q, d |-> d, ev |-> ev, res |-> res, adv |-> adv, why |-> why, y |-> FALSE]

RECURSIVE Dispatch(_, _, _, _, _, _)
RECURSIVE FirstTrue(_, _, _, _, _)
FirstTrue(M, ts, j, d, last) ==
  IF j > Len(ts) THEN [j |-> 0, s |-> "ok"]
  ELSE LET x == CondVal(M, ts[j].cond, d, last) IN
    IF x.s # "ok" THEN [j |-> 0, s |-> x.s]
    ELSE IF x.v # 0 THEN [j |-> j, s |-> "ok"] ELSE FirstTrue(M, ts, j + 1, d, last)

Dispatch(M, q, d, ev, c, fuel) ==
  LET pre == 0 isEnd == c = END
      last == IF isEnd THEN 255 ELSE c
      mode == IF isEnd THEN "end" ELSE "feed"
      s == M.states[q + 1]
      Body(t) ==
        LET q1 == IF t.tgt = TERMINATING THEN q ELSE t.tgt
            adv1 == IF t.early /\ ~isEnd THEN 1 ELSE pre
            r == RunActs(M, t.acts, 1, d, ev, last, mode) IN
        CASE r.k = "ret" -> Res(q1, r.d, r.ev, r.x, adv1, "")
          [] r.k = "yld" -> [Res(q1, r.d, r.ev, r.x, adv1, "") EXCEPT !.y = TRUE]
          [] r.k \in {"ub", "wide"} -> Res(q1, r.d, r.ev, r.k, adv1, r.x)
          \* out of space: the byte is NOT consumed; it is dispatched again in the handler state
          \* (an early advance of this transition must not survive the redirect)
          [] r.k = "ovf" -> Dispatch(M, r.x, r.d, r.ev, c, fuel - 1)
          [] OTHER ->
             LET q2 == IF r.k = "brk" THEN r.x ELSE q1 IN
             IF t.fall THEN
                (IF t.tgt = TERMINATING
                 THEN Res(q2, r.d, r.ev, IF s.acc THEN "DONE" ELSE IF isEnd THEN "FAIL" ELSE "OK", adv1, "fallthrough to a removed state")
                 ELSE Dispatch(M, q2, r.d, r.ev, c, fuel - 1))
             ELSE IF t.immdone THEN Res(q2, r.d, r.ev, "DONE", adv1, "")
             ELSE IF isEnd THEN Res(q2, r.d, r.ev, IF s.acc THEN "DONE" ELSE "FAIL", 0, "")
             ELSE IF t.tgt = TERMINATING THEN Res(q2, r.d, r.ev, IF s.acc THEN "DONE" ELSE "OK", adv1, "consuming move to a removed state")
             ELSE Res(q2, r.d, r.ev, "next", 1, "")
  IN
  IF fuel = 0 THEN Res(q, d, ev, "SPIN", pre, "")
  ELSE IF q < 0 \/ q >= Len(M.states) THEN Res(q, d, ev, "FAIL", pre, "default")
  ELSE IF s.kind = "fail" THEN Res(q, d, ev, "FAIL", pre, "")
  ELSE IF s.kind = "cond" THEN
       LET p == FirstTrue(M, s.trans, 1, d, last) IN
       IF p.s # "ok" THEN Res(q, d, ev, p.s, pre, "condition point")
       ELSE IF p.j = 0 THEN Res(q, d, ev, "FAIL", pre, "no condition holds")
       ELSE Body(s.trans[p.j])
  ELSE LET t == Pick(s, c) IN
       IF t.tgt = -1 THEN Res(q, d, ev, IF s.acc THEN "DONE" ELSE IF isEnd THEN "FAIL" ELSE "OK", pre, "no transition")
       ELSE Body(t)

FUEL == 64
ByteStep(M, q, d, c) == Dispatch(M, q, d, <<>>, c, FUEL)
EndStep(M, q, d)     == Dispatch(M, q, d, <<>>, END, FUEL)

\* ---------------- <parser>_start ----------------
StartStep(M) ==
  LET d0 == InitStore(M)
      r == RunActs(M, M.sacts, 1, d0, <<>>, 0, "start") IN
  CASE r.k = "ret" -> Res(M.start, r.d, r.ev, r.x, 0, "")
    [] r.k = "yld" -> [Res(M.start, r.d, r.ev, r.x, 0, "") EXCEPT !.y = TRUE]
    [] r.k \in {"ovf", "brk"} -> Res(r.x, r.d, r.ev, "OK", 0, "")     \* state->state = x; return OK
    [] r.k \in {"ub", "wide"} -> Res(M.start, r.d, r.ev, r.k, 0, r.x)
    [] OTHER -> Res(M.start, r.d, r.ev, "OK", 0, "")

\* ---------------- <parser>_free ----------------
\* (a released buffer has no contents: canonical form is all-zero cells, length untouched)
FreeStore(M, d) == [n \in DOMAIN d |-> IF Dyn(M, M.decl[n]) THEN [d[n] EXCEPT !.al = "null", !.buf = Zeros(M.decl[n].size)] ELSE d[n]]

\* ---------------- what the API exposes of a store: values, string contents up to their length ----------------
ObsCell(cell) == IF "v" \in DOMAIN cell THEN [v |-> cell.v] ELSE IF "w" \in DOMAIN cell THEN [w |-> cell.w] ELSE [s |-> SubSeq(cell.buf, 1, cell.len), len |-> cell.len]
Obs(d) == [n \in DOMAIN d |-> ObsCell(d[n])]

\* ---------------- invariants over a store (C03, capacity contract) ----------------
CellOK(M, n, cell) ==
  LET D == M.decl[n] IN
  IsBuf(D) => /\ cell.len >= 0 /\ cell.len <= Cap(D)
              /\ Len(cell.buf) = D.size
              /\ (Term(D) /\ Accessible(cell)) => cell.buf[cell.len + 1] = 0
              /\ (~Accessible(cell)) => cell.len = 0
CapInv(M, d) == \A n \in DOMAIN d : CellOK(M, n, d[n])
=============================================================================
