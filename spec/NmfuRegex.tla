------------------------------ MODULE NmfuRegex ------------------------------
(***************************************************************************)
(* Regular expressions over the symbols 0..255 and END = 256, as terms,    *)
(* with Antimirov partial derivatives.  A matcher state is a *set* of      *)
(* terms; TLA+ sets give associativity/commutativity/idempotence for free, *)
(* so the reachable matcher states of a term are finite without any        *)
(* normalisation.                                                          *)
(*                                                                         *)
(*   [k |-> "eps"]  [k |-> "cls", s |-> set of symbols]                    *)
(*   [k |-> "seq", a, b]  [k |-> "alt", a, b]  [k |-> "star", a]           *)
(* The dialect's ? + {n} {n,m} {n,} are desugared by the front end; data   *)
(* classes (sets, inverted sets, the wildcard, \w ...) never contain END;  *)
(* the `end` pattern is the class {END}.                                   *)
(***************************************************************************)
EXTENDS Integers, Sequences, FiniteSets

Eps == [k |-> "eps"]
Cls(s) == [k |-> "cls", s |-> s]
Sq(a, b) == [k |-> "seq", a |-> a, b |-> b]
Alt(a, b) == [k |-> "alt", a |-> a, b |-> b]
Star(a) == [k |-> "star", a |-> a]

RECURSIVE Nullable(_), PD(_, _), FirstOf(_)
Nullable(r) == CASE r.k = "eps" -> TRUE
                 [] r.k = "cls" -> FALSE
                 [] r.k = "seq" -> Nullable(r.a) /\ Nullable(r.b)
                 [] r.k = "alt" -> Nullable(r.a) \/ Nullable(r.b)
                 [] r.k = "star" -> TRUE
MkSeq(a, b) == IF a.k = "eps" THEN b ELSE IF b.k = "eps" THEN a ELSE Sq(a, b)
\* partial derivatives of r with respect to the symbol c
PD(r, c) == CASE r.k = "eps" -> {}
              [] r.k = "cls" -> IF c \in r.s THEN {Eps} ELSE {}
              [] r.k = "seq" -> {MkSeq(x, r.b) : x \in PD(r.a, c)} \cup (IF Nullable(r.a) THEN PD(r.b, c) ELSE {})
              [] r.k = "alt" -> PD(r.a, c) \cup PD(r.b, c)
              [] r.k = "star" -> {MkSeq(x, r) : x \in PD(r.a, c)}
\* symbols that can start a word of r
FirstOf(r) == CASE r.k = "eps" -> {}
                [] r.k = "cls" -> r.s
                [] r.k = "seq" -> FirstOf(r.a) \cup (IF Nullable(r.a) THEN FirstOf(r.b) ELSE {})
                [] r.k = "alt" -> FirstOf(r.a) \cup FirstOf(r.b)
                [] r.k = "star" -> FirstOf(r.a)

\* matcher states
PDS(S, c) == UNION {PD(r, c) : r \in S}
NullS(S) == \E r \in S : Nullable(r)
FirstS(S) == UNION {FirstOf(r) : r \in S}
CanCont(S) == FirstS(S) # {}
\* the matcher has matched and nothing can extend the match
Finished(S) == NullS(S) /\ ~CanCont(S)
=============================================================================
