-------------------------------- MODULE Equiv --------------------------------
(***************************************************************************)
(* Observational equivalence of two compiled machines of the same source   *)
(* (C05: optimisation levels / flags; C13: macro vs hand-inlined twin;     *)
(* C20: repeated compilation).                                             *)
(*                                                                         *)
(* Cases[cid] = [ma, mb (indices into Machines), syms, maxlen, slack].     *)
(* Both machines read the same symbol in each step (fed by a conforming    *)
(* caller, re-invoking after yields).  Compared:                           *)
(*   - the stream of strict events: hook calls (name + snapshot of what    *)
(*     the API exposes) and yields (code);                                 *)
(*   - the status after every symbol (continue / FAIL / DONE / finish code)*)
(*   - the exposed outputs when a terminal status is reached.              *)
(* With slack = TRUE one side may run ahead by the events of one symbol:   *)
(* after symbol k the two event streams may differ by a surplus on one     *)
(* side, which the other side must emit first thing on symbol k+1 (an      *)
(* action between two consumed bytes may run with either byte; the $last   *)
(* value a hook observes is therefore not compared).  With slack = FALSE   *)
(* the events of every symbol must be identical.                           *)
(***************************************************************************)
EXTENDS NmfuMachine, Json, CasesData

VARIABLES cid, qa, da, qb, db, lead, sur, st, term, hist
vars == <<cid, qa, da, qb, db, lead, sur, st, term, hist>>
View == <<cid, qa, da, qb, db, lead, sur, st, term>>
Bound == Len(hist) <= Cases[cid].maxlen

MA == Machines[Cases[cid].ma]
MB == Machines[Cases[cid].mb]
MaxYields == 8

RECURSIVE MFeed(_, _, _, _, _, _)
MFeed(M, qq, dd, c, evs, k) ==
  LET r == IF c = END THEN EndStep(M, qq, dd) ELSE ByteStep(M, qq, dd, c)
      ev2 == evs \o r.ev IN
  IF ~r.y THEN [r |-> r, evs |-> ev2, lock |-> FALSE]
  ELSE LET ev3 == Append(ev2, [e |-> "yield", code |-> r.res]) IN
       IF r.adv = 1 /\ c # END THEN [r |-> [r EXCEPT !.res = "next"], evs |-> ev3, lock |-> FALSE]
       ELSE IF k = 0 THEN [r |-> r, evs |-> ev3, lock |-> TRUE]
       ELSE MFeed(M, r.q, r.d, c, ev3, k - 1)

\* what is compared of an event
Key(e) == IF e.e = "hook" THEN [e |-> "hook", n |-> e.n, snap |-> Obs(e.snap)] ELSE e
Keys(evs) == [i \in DOMAIN evs |-> Key(evs[i])]
IsPrefix(s, t) == Len(s) <= Len(t) /\ SubSeq(t, 1, Len(s)) = s
Drop(t, n) == SubSeq(t, n + 1, Len(t))

Init == cid \in 1..Len(Cases) /\ qa = -1 /\ da = <<>> /\ qb = -1 /\ db = <<>> /\ lead = "" /\ sur = <<>> /\ st = "start" /\ term = "" /\ hist = <<>>

Undecided(res) == res \in {"ub", "wide", "SPIN", "OK"}

\* combine the events of one symbol on both sides with the surplus carried over; result: new lead/surplus or mismatch
Merge(ea, eb, slack) ==
  LET a == IF lead = "a" THEN sur \o ea ELSE ea
      b == IF lead = "b" THEN sur \o eb ELSE eb
      \* the side that was behind must first emit the carried surplus
      owed == IF lead = "a" THEN IsPrefix(sur, eb) ELSE IF lead = "b" THEN IsPrefix(sur, ea) ELSE TRUE
  IN IF ~owed THEN [ok |-> FALSE, lead |-> "", sur |-> <<>>]
     ELSE IF a = b THEN [ok |-> TRUE, lead |-> "", sur |-> <<>>]
     ELSE IF ~slack THEN [ok |-> FALSE, lead |-> "", sur |-> <<>>]
     ELSE IF IsPrefix(a, b) THEN [ok |-> TRUE, lead |-> "b", sur |-> Drop(b, Len(a))]
     ELSE IF IsPrefix(b, a) THEN [ok |-> TRUE, lead |-> "a", sur |-> Drop(a, Len(b))]
     ELSE [ok |-> FALSE, lead |-> "", sur |-> <<>>]

Report(kind, h, x) == PrintT("@@" \o ToJson([kind |-> kind, cid |-> cid, hist |-> h] @@ x))

Start ==
  /\ st = "start"
  /\ LET ra == StartStep(MA) rb == StartStep(MB)
         und == ra.res \in {"ub", "wide"} \/ rb.res \in {"ub", "wide"}
         m == Merge(Keys(ra.ev), Keys(rb.ev), Cases[cid].slack)
         same == ra.res = rb.res /\ (ra.res = "OK" \/ Obs(ra.d) = Obs(rb.d))
     IN /\ qa' = ra.q /\ da' = ra.d /\ qb' = rb.q /\ db' = rb.d /\ UNCHANGED <<cid, hist, term>>
        /\ lead' = m.lead /\ sur' = m.sur
        /\ st' = IF und THEN "und" ELSE IF ~m.ok \/ ~same THEN "viol" ELSE IF ra.res = "OK" THEN "run" ELSE "end"
        /\ (~und /\ (~m.ok \/ ~same)) => Report("VIOL", hist, [at |-> "start", ares |-> ra.res, bres |-> rb.res, aev |-> Keys(ra.ev), bev |-> Keys(rb.ev)])

Terminal(res) == res \notin {"next", "FAIL"} /\ ~Undecided(res)      \* DONE or a finish code

Sym(c) ==
  /\ st = "run"
  /\ LET fa == MFeed(MA, qa, da, c, <<>>, MaxYields)
         fb == MFeed(MB, qb, db, c, <<>>, MaxYields)
         ra == fa.r rb == fb.r
         und == Undecided(ra.res) \/ Undecided(rb.res) \/ fa.lock \/ fb.lock
         m == Merge(Keys(fa.evs), Keys(fb.evs), Cases[cid].slack)
         terminal == ra.res # "next" \/ c = END
         \* permitted timing shift of the end itself: one side finishes on this symbol, the other has the finishing
         \* action still pending and must finish with the same code, whatever symbol (or end of input) comes next
         lagA == Cases[cid].slack /\ c # END /\ ra.res = "next" /\ Terminal(rb.res) /\ m.ok /\ m.lead \in {"", "b"}
         lagB == Cases[cid].slack /\ c # END /\ rb.res = "next" /\ Terminal(ra.res) /\ m.ok /\ m.lead \in {"", "a"}
         \* on termination nothing may be left over and the exposed outputs agree
         same == ra.res = rb.res /\ (~terminal \/ (m.sur = <<>> /\ Obs(ra.d) = Obs(rb.d)))
         h2 == Append(hist, c)
     IN /\ qa' = ra.q /\ da' = ra.d /\ qb' = rb.q /\ db' = rb.d /\ hist' = h2 /\ cid' = cid
        /\ lead' = m.lead /\ sur' = m.sur
        /\ term' = IF lagA THEN rb.res ELSE IF lagB THEN ra.res ELSE ""
        /\ st' = IF und THEN "und" ELSE IF lagA THEN "lagA" ELSE IF lagB THEN "lagB"
                 ELSE IF ~m.ok \/ ~same THEN "viol" ELSE IF terminal THEN "end" ELSE "run"
        /\ (und => Report("UNDECIDED", h2, [why |-> <<ra.res, rb.res>>]))
        /\ (~und /\ ~lagA /\ ~lagB /\ (~m.ok \/ ~same)) => Report("VIOL", h2, [at |-> "sym", ares |-> ra.res, bres |-> rb.res, aev |-> Keys(fa.evs), bev |-> Keys(fb.evs),
                                                             lead |-> lead, sur |-> sur, ad |-> Obs(ra.d), bd |-> Obs(rb.d)])

\* the side that is behind catches up on the next symbol
Lag(c) ==
  /\ st \in {"lagA", "lagB"}
  /\ LET isA == st = "lagA"
         f == IF isA THEN MFeed(MA, qa, da, c, <<>>, MaxYields) ELSE MFeed(MB, qb, db, c, <<>>, MaxYields)
         r == f.r
         und == Undecided(r.res) \/ f.lock
         ok == r.res = term /\ Keys(f.evs) = sur /\ Obs(r.d) = Obs(IF isA THEN db ELSE da)
         h2 == Append(hist, c)
     IN /\ hist' = h2 /\ cid' = cid /\ lead' = "" /\ sur' = <<>> /\ term' = term
        /\ IF isA THEN qa' = r.q /\ da' = r.d /\ UNCHANGED <<qb, db>> ELSE qb' = r.q /\ db' = r.d /\ UNCHANGED <<qa, da>>
        /\ st' = IF und THEN "und" ELSE IF ok THEN "end" ELSE "viol"
        /\ (~und /\ ~ok) => Report("VIOL", h2, [at |-> "lag", ares |-> IF isA THEN r.res ELSE term, bres |-> IF isA THEN term ELSE r.res,
                                                aev |-> Keys(f.evs), bev |-> sur, lead |-> st, sur |-> sur, ad |-> Obs(da), bd |-> Obs(db)])

Next == Start \/ \E c \in Cases[cid].syms : Sym(c) \/ Lag(c)
Spec == Init /\ [][Next]_vars
=============================================================================
