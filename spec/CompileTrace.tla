---------------------------- MODULE CompileTrace ----------------------------
(***************************************************************************)
(* Trace validation of compile calls (C18).  A recorded event is           *)
(*   [src (id), outcome, must]                                             *)
(* with outcome in the driver's classification of what the real compiler   *)
(* did.  The specification's alphabet of outcomes is                       *)
(*   "code"                       header and source were generated         *)
(*   "diagnosed"                  a parse / compile / codegen error whose   *)
(*                                message could be rendered                *)
(* and for a source that the static rules classify as must-be-diagnosed    *)
(* (undefined name, wrong kind or arity, unsupported width, ...) only       *)
(* "diagnosed".  Internal exceptions, unrenderable errors and time-outs    *)
(* are not in the alphabet: such an event is rejected.                     *)
(***************************************************************************)
EXTENDS Integers, Sequences, TLC, Json, CasesData

VARIABLES i, verdict
vars == <<i, verdict>>
Allowed(e) == IF e.must THEN {"diagnosed"} ELSE {"code", "diagnosed"}
Init == i \in 1..Len(Cases) /\ verdict = "run"
Step == /\ verdict = "run"
        /\ LET e == Cases[i] ok == e.outcome \in Allowed(e) IN
           /\ verdict' = (IF ok THEN "accepted" ELSE "rejected")
           /\ i' = i
           /\ (~ok) => PrintT("@@" \o ToJson([kind |-> "REJECT", cid |-> i, outcome |-> e.outcome, must |-> e.must]))
Spec == Init /\ [][Step]_vars
=============================================================================
