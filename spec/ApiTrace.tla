------------------------------ MODULE ApiTrace ------------------------------
(***************************************************************************)
(* Trace validation of recorded executions of the emitted C against the    *)
(* machine specification (code -> spec direction).                         *)
(*                                                                         *)
(* Cases[cid] = [mi |-> index into Machines, T |-> recorded trace]; the     *)
(* trace is the driver's NDJSON log, one event per API call:               *)
(*   [ev |-> "start", rc, q, d, hooks]                                     *)
(*   [ev |-> "feed", chunk |-> <<bytes>>, rc, adv (-1 = direct pointer),   *)
(*    q, d, hooks]                                                         *)
(*   [ev |-> "end", rc, q, d, hooks]                                       *)
(*   [ev |-> "free", live, d]                                              *)
(*   [ev |-> "force", q, d]      the driver overwrote state->state / vars   *)
(* TLC takes one step per consumed byte (and one per call boundary), using *)
(* the same ByteStep / EndStep / StartStep operators as every other model, *)
(* and compares every logged field with the primed specification state.    *)
(* A verdict is total: accepted, rejected (failing clauses named), or       *)
(* inconclusive because evaluation left the modelled value range.           *)
(***************************************************************************)
EXTENDS NmfuMachine, Json, CasesData

\* Cases (sequence of [M, T]) is defined by the generated module CasesData

VARIABLES cid, ei, bi, q, d, hk, verdict
vars == <<cid, ei, bi, q, d, hk, verdict>>

M == Machines[Cases[cid].mi]
T == Cases[cid].T

Report(kind, x) == PrintT("@@" \o ToJson([kind |-> kind, cid |-> cid] @@ x))

Init == /\ cid \in 1..Len(Cases)
        /\ ei = 1 /\ bi = 0 /\ q = -1 /\ d = <<>> /\ hk = <<>> /\ verdict = "run"

\* canonical form of logged hooks: sequences of [e, n, iv, snap]
HooksEq(spec, logged) ==
  /\ Len(spec) = Len(logged)
  /\ \A i \in 1..Len(spec) : /\ spec[i].n = logged[i].n
                             /\ spec[i].iv = logged[i].iv
                             /\ spec[i].snap = logged[i].d

\* compare the outcome of a completed call with the logged event
Finish(e, rc, adv, q2, d2, hooks) ==
  LET okrc == rc = e.rc
      okadv == (e.adv = -1) \/ (adv = e.adv)
      okq == q2 = e.q
      okd == d2 = e.d
      okh == HooksEq(hooks, e.hooks)
      okcap == CapInv(M, d2)          \* the capacity contract holds in the specification's own store
      all == okrc /\ okadv /\ okq /\ okd /\ okh /\ okcap
  IN /\ q' = q2 /\ d' = d2 /\ hk' = <<>> /\ bi' = 0 /\ ei' = ei + 1 /\ cid' = cid
     /\ verdict' = IF ~all THEN "rejected" ELSE IF ei = Len(T) THEN "accepted" ELSE "run"
     /\ IF ~all
        THEN Report("REJECT", [ei |-> ei, ev |-> e.ev,
                               clauses |-> [rc |-> okrc, adv |-> okadv, q |-> okq, d |-> okd, hooks |-> okh, cap |-> okcap],
                               spec |-> [rc |-> rc, adv |-> adv, q |-> q2, d |-> d2, hooks |-> hooks],
                               impl |-> [rc |-> e.rc, adv |-> e.adv, q |-> e.q, d |-> e.d, hooks |-> e.hooks]])
        ELSE IF ei = Len(T) THEN Report("ACCEPT", [n |-> Len(T)]) ELSE TRUE

Inconclusive(why, detail) ==
  /\ verdict' = why /\ UNCHANGED <<cid, ei, bi, q, d, hk>>
  /\ Report("SKIP", [ei |-> ei, why |-> why, detail |-> detail])

Step ==
  /\ verdict = "run"
  /\ LET e == T[ei] IN
     CASE e.ev = "start" ->
            LET r == StartStep(M) IN
            IF r.res \in {"ub", "wide"} THEN Inconclusive(r.res, r.why)
            ELSE Finish(e, r.res, 0, r.q, r.d, r.ev)
       [] e.ev = "force" ->
            /\ q' = e.q /\ d' = e.d /\ hk' = <<>> /\ bi' = 0 /\ ei' = ei + 1 /\ cid' = cid
            /\ verdict' = IF ei = Len(T) THEN "accepted" ELSE "run"
            /\ (ei = Len(T)) => Report("ACCEPT", [n |-> Len(T)])
       [] e.ev = "end" ->
            LET r == EndStep(M, q, d) IN
            IF r.res \in {"ub", "wide", "SPIN"} THEN Inconclusive(r.res, r.why)
            ELSE Finish(e, r.res, 0, r.q, r.d, r.ev)
       [] e.ev = "free" ->
            \* <parser>_free: every dynamic string released and nulled, nothing left allocated
            LET d2 == FreeStore(M, d)
                okd == d2 = e.d
                oklive == e.live = 0 /\ e.memerr = 0 IN
            /\ q' = q /\ d' = d2 /\ hk' = <<>> /\ bi' = 0 /\ ei' = ei + 1 /\ cid' = cid
            /\ verdict' = IF ~(okd /\ oklive) THEN "rejected" ELSE IF ei = Len(T) THEN "accepted" ELSE "run"
            /\ IF ~(okd /\ oklive)
               THEN Report("REJECT", [ei |-> ei, ev |-> "free", clauses |-> [d |-> okd, live |-> oklive],
                                      spec |-> [d |-> d2], impl |-> [d |-> e.d, live |-> e.live, memerr |-> e.memerr]])
               ELSE IF ei = Len(T) THEN Report("ACCEPT", [n |-> Len(T)]) ELSE TRUE
       [] e.ev = "feed" ->
            IF Len(e.chunk) = 0
            THEN (IF M.cfg.endcheck THEN Finish(e, "OK", 0, q, d, <<>>) ELSE Inconclusive("ub", "zero-length feed without end check"))
            ELSE LET b == IF bi = 0 THEN 1 ELSE bi
                     r == Dispatch(M, q, d, hk, e.chunk[b], FUEL) IN
                 IF r.res \in {"ub", "wide", "SPIN"} THEN Inconclusive(r.res, r.why)
                 ELSE IF r.res = "next"
                 THEN (IF b = Len(e.chunk)
                       THEN Finish(e, "OK", b, r.q, r.d, r.ev)
                       ELSE /\ q' = r.q /\ d' = r.d /\ hk' = r.ev /\ bi' = b + 1
                            /\ UNCHANGED <<cid, ei, verdict>>)
                 ELSE Finish(e, r.res, b - 1 + r.adv, r.q, r.d, r.ev)

Spec == Init /\ [][Step]_vars

\* every store reached while replaying an accepted prefix satisfies the capacity contract
StoreInv == (q # -1) => CapInv(M, d)
=============================================================================
