------------------------------- MODULE ApiSpec -------------------------------
(***************************************************************************)
(* The documented API of a generated parser (docs/user-ref/generated-code) *)
(* as a function of the resolved configuration and the declarations, and   *)
(* trace validation of the symbol tables extracted from emitted headers    *)
(* (C11).  An event is                                                     *)
(*   [cfg |-> [eof, dyn, hookglobal, hookstate, yield], hooks, fcodes,      *)
(*    ycodes, syms |-> set of API symbols found in the header,             *)
(*    compiles |-> [c99, c11, cxx] (results of the external compilers)]    *)
(* API symbols are written abstractly: "fn:start" "fn:feed" "fn:end"       *)
(* "fn:free" "hookproto:<h>" "hookmember:<h>" "code:OK|FAIL|DONE"          *)
(* "code:FINISH_<c>" "code:YIELD_<c>".                                     *)
(***************************************************************************)
EXTENDS Integers, Sequences, FiniteSets, TLC, Json, CasesData

Range(s) == {s[i] : i \in DOMAIN s}

ExpectedApi(e) ==
  {"fn:start", "fn:feed", "code:OK", "code:FAIL", "code:DONE"}
  \cup (IF e.cfg.eof THEN {"fn:end"} ELSE {})
  \cup (IF e.cfg.dyn THEN {"fn:free"} ELSE {})
  \cup (IF e.cfg.hookglobal THEN {"hookproto:" \o h : h \in Range(e.hooks)} ELSE {})
  \cup (IF e.cfg.hookstate /\ ~e.cfg.hookglobal THEN {"hookmember:" \o h : h \in Range(e.hooks)} ELSE {})
  \cup {"code:FINISH_" \o c : c \in Range(e.fcodes)}
  \cup {"code:YIELD_" \o c : c \in Range(e.ycodes)}

VARIABLES i, verdict
vars == <<i, verdict>>
Init == i \in 1..Len(Cases) /\ verdict = "run"
Step == /\ verdict = "run"
        /\ LET e == Cases[i]
               exp == ExpectedApi(e)
               found == Range(e.syms)
               okapi == found = exp
               okcc == e.compiles.c99 /\ e.compiles.c11 /\ e.compiles.cxx
           IN /\ verdict' = (IF okapi /\ okcc THEN "accepted" ELSE "rejected")
              /\ i' = i
              /\ (~(okapi /\ okcc)) => PrintT("@@" \o ToJson([kind |-> "REJECT", cid |-> i, missing |-> exp \ found, extra |-> found \ exp,
                                                              compiles |-> e.compiles]))
Spec == Init /\ [][Step]_vars
=============================================================================
