-------------------------------- MODULE Cover --------------------------------
(***************************************************************************)
(* Specification-guided test generation: the shortest input reaching every *)
(* distinguishable single-step behaviour of a compiled machine.            *)
(*                                                                         *)
(* TLC explores Cases[cid] = [mi, syms, maxlen] breadth first under the    *)
(* API protocol (one symbol per step, re-invocation after yields, END =    *)
(* the end function).  Each step is classified by a coverage item          *)
(*   <<state before, symbol, state after, result, advance, emitted events, *)
(*     names of the outputs the step changed>>                             *)
(* which separates, for one (state, symbol cell), the branches the data    *)
(* can select: condition outcomes, the out-of-space redirect of an append  *)
(* on a full buffer (also inside the actions that follow a loop left by a  *)
(* break, or under nested conditions), finish / yield returns.  The first  *)
(* time an item is seen its input history is printed; breadth-first order  *)
(* makes it a shortest witness.  The harness feeds these inputs to the     *)
(* real generated C parser (under every chunking, sanitizer builds, ...)   *)
(* and validates the recorded traces against NmfuMachine (ApiTrace).       *)
(*                                                                         *)
(* Run with -workers 1: the set of items seen so far lives in TLC          *)
(* register 1.                                                             *)
(***************************************************************************)
EXTENDS NmfuMachine, Json, CasesData, TLC

VARIABLES cid, q, d, st, hist
vars == <<cid, q, d, st, hist>>
View == <<cid, q, d, st>>
Bound == Len(hist) <= Cases[cid].maxlen

M == Machines[Cases[cid].mi]
MaxYields == 8

RECURSIVE FeedByte(_, _, _, _, _)
FeedByte(qq, dd, c, codes, k) ==
  LET r == IF c = END THEN EndStep(M, qq, dd) ELSE ByteStep(M, qq, dd, c) IN
  IF ~r.y THEN [r |-> r, codes |-> codes]
  ELSE IF r.adv = 1 /\ c # END THEN [r |-> [r EXCEPT !.res = "next"], codes |-> Append(codes, r.res)]
  ELSE IF k = 0 THEN [r |-> [r EXCEPT !.res = "LOCK"], codes |-> Append(codes, r.res)]
  ELSE FeedByte(r.q, r.d, c, Append(codes, r.res), k - 1)

EvName(e) == IF e.e = "hook" THEN e.n ELSE e.e
Changed(d0, d1) == {n \in DOMAIN d0 : d0[n] # d1[n]}

Init == /\ cid \in 1..Len(Cases)
        /\ q = -1 /\ d = <<>> /\ st = "start" /\ hist = <<>>
        /\ TLCSet(1, {})

Start ==
  /\ st = "start"
  /\ LET r == StartStep(M) IN
     /\ q' = r.q /\ d' = r.d /\ UNCHANGED <<cid, hist>>
     /\ st' = IF r.res = "OK" THEN "run" ELSE "stop"

Sym(c) ==
  /\ st = "run"
  /\ LET f == FeedByte(q, d, c, <<>>, MaxYields)
         r == f.r
         h2 == Append(hist, c)
         item == <<cid, q, c, r.q, r.res, r.adv, [i \in DOMAIN r.ev |-> EvName(r.ev[i])], f.codes,
                   IF r.res \in {"ub", "wide", "SPIN", "LOCK"} THEN {} ELSE Changed(d, r.d)>>
     IN /\ hist' = h2 /\ cid' = cid /\ q' = r.q /\ d' = r.d
        /\ st' = IF r.res = "next" THEN "run" ELSE "stop"
        /\ (item \notin TLCGet(1)) =>
              /\ TLCSet(1, TLCGet(1) \cup {item})
              /\ PrintT("@@" \o ToJson([kind |-> "COVER", cid |-> cid, hist |-> h2, res |-> r.res,
                                          sig |-> <<q, r.q, r.res, r.adv, [i \in DOMAIN r.ev |-> EvName(r.ev[i])], f.codes>>]))

Next == Start \/ \E c \in Cases[cid].syms : Sym(c)
Spec == Init /\ [][Next]_vars
=============================================================================
