------------------------------ MODULE NmfuWide ------------------------------
(***************************************************************************)
(* Exact integers beyond the 32-bit range of TLC's evaluator, for the C    *)
(* types unsigned int, long and unsigned long of NmfuExpr.                 *)
(*                                                                         *)
(* A wide integer is [neg |-> BOOLEAN, m |-> magnitude]; a magnitude is a  *)
(* little-endian sequence of limbs in 0 .. WBASE-1, WBASE = 2^15 (so that a limb   *)
(* product fits the evaluator), without trailing zero limbs; zero is       *)
(* [neg |-> FALSE, m |-> <<>>].                                            *)
(*                                                                         *)
(* Provided: conversion from/to TLC integers, comparison, + - *, truncated *)
(* division and remainder (C semantics), reduction modulo 2^N to the value *)
(* range of an N-bit signed or unsigned type, two's-complement bitwise     *)
(* operators and shifts on N-bit values.                                   *)
(***************************************************************************)
EXTENDS Integers, Sequences, Bitwise

WBASE == 32768
WLOG == 15

\* ---------------- magnitudes ----------------
RECURSIVE MNorm(_)
MNorm(m) == IF m = <<>> THEN m ELSE IF m[Len(m)] = 0 THEN MNorm(SubSeq(m, 1, Len(m) - 1)) ELSE m

RECURSIVE MFromNat(_)
MFromNat(n) == IF n = 0 THEN <<>> ELSE <<n % WBASE>> \o MFromNat(n \div WBASE)

WLimb(m, i) == IF i <= Len(m) THEN m[i] ELSE 0
WMaxLen(a, b) == IF Len(a) > Len(b) THEN Len(a) ELSE Len(b)

RECURSIVE MAddC(_, _, _, _)
MAddC(a, b, i, c) ==
  IF i > WMaxLen(a, b) THEN (IF c = 0 THEN <<>> ELSE <<c>>)
  ELSE LET s == WLimb(a, i) + WLimb(b, i) + c IN <<s % WBASE>> \o MAddC(a, b, i + 1, s \div WBASE)
MAdd(a, b) == MAddC(a, b, 1, 0)

\* comparison: -1, 0, 1
RECURSIVE MCmpI(_, _, _)
MCmpI(a, b, i) == IF i = 0 THEN 0
                  ELSE IF WLimb(a, i) < WLimb(b, i) THEN -1
                  ELSE IF WLimb(a, i) > WLimb(b, i) THEN 1
                  ELSE MCmpI(a, b, i - 1)
MCmp(a, b) == IF Len(a) < Len(b) THEN -1 ELSE IF Len(a) > Len(b) THEN 1 ELSE MCmpI(a, b, Len(a))

\* a - b for a >= b
RECURSIVE MSubC(_, _, _, _)
MSubC(a, b, i, c) ==
  IF i > Len(a) THEN <<>>
  ELSE LET s == WLimb(a, i) - WLimb(b, i) - c IN
       IF s < 0 THEN <<s + WBASE>> \o MSubC(a, b, i + 1, 1) ELSE <<s>> \o MSubC(a, b, i + 1, 0)
MSub(a, b) == MNorm(MSubC(a, b, 1, 0))

\* a * (one limb d) shifted by k limbs
RECURSIVE MMul1C(_, _, _, _)
MMul1C(a, d, i, c) ==
  IF i > Len(a) THEN (IF c = 0 THEN <<>> ELSE <<c>>)
  ELSE LET p == a[i] * d + c IN <<p % WBASE>> \o MMul1C(a, d, i + 1, p \div WBASE)
WZeros(k) == [j \in 1..k |-> 0]
RECURSIVE MMulI(_, _, _)
MMulI(a, b, j) == IF j > Len(b) THEN <<>>
                  ELSE MAdd(IF b[j] = 0 THEN <<>> ELSE WZeros(j - 1) \o MMul1C(a, b[j], 1, 0), MMulI(a, b, j + 1))
MMul(a, b) == IF a = <<>> \/ b = <<>> THEN <<>> ELSE MNorm(MMulI(a, b, 1))

\* doubling / halving, powers of two
MDouble(a) == MAdd(a, a)
RECURSIVE MHalfI(_, _, _)
MHalfI(a, i, c) == IF i = 0 THEN <<>>
                   ELSE LET v == c * WBASE + a[i] IN MHalfI(a, i - 1, v % 2) \o <<v \div 2>>
MHalf(a) == MNorm(MHalfI(a, Len(a), 0))
RECURSIVE WP2(_)
WP2(n) == IF n = 0 THEN 1 ELSE 2 * WP2(n - 1)
MPow2(n) == WZeros(n \div WLOG) \o <<WP2(n % WLOG)>>
MOdd(a) == a # <<>> /\ a[1] % 2 = 1

\* a mod 2^n, a div 2^n
MLow(a, n) ==
  LET k == n \div WLOG r == n % WLOG
      whole == SubSeq(a, 1, IF k < Len(a) THEN k ELSE Len(a))
      part == IF r = 0 \/ k >= Len(a) THEN <<>> ELSE <<a[k + 1] % WP2(r)>>
  IN MNorm(whole \o part)
RECURSIVE MShrBits(_, _)
MShrBits(a, r) == IF r = 0 THEN a ELSE MShrBits(MHalf(a), r - 1)
MShr(a, n) == LET k == n \div WLOG IN IF k >= Len(a) THEN <<>> ELSE MShrBits(SubSeq(a, k + 1, Len(a)), n % WLOG)
MShl(a, n) == IF a = <<>> THEN <<>> ELSE MMul(WZeros(n \div WLOG) \o a, <<WP2(n % WLOG)>>)

\* schoolbook binary long division: quotient and remainder of a by b (b # 0), bit by bit from the top
MBits(a) == IF a = <<>> THEN 0 ELSE (Len(a) - 1) * WLOG + (CHOOSE k \in 1..WLOG : WP2(k - 1) <= a[Len(a)] /\ a[Len(a)] < WP2(k))
MBit(a, i) == LET k == i \div WLOG IN IF k >= Len(a) THEN 0 ELSE (a[k + 1] \div WP2(i % WLOG)) % 2
RECURSIVE MDivI(_, _, _, _, _)
MDivI(a, b, i, q, r) ==
  IF i < 0 THEN [q |-> MNorm(q), r |-> r]
  ELSE LET r1 == MNorm(MAdd(MDouble(r), IF MBit(a, i) = 1 THEN <<1>> ELSE <<>>))
           ge == MCmp(r1, b) >= 0
       IN MDivI(a, b, i - 1, MAdd(MDouble(q), IF ge THEN <<1>> ELSE <<>>), IF ge THEN MSub(r1, b) ELSE r1)
MDivMod(a, b) == MDivI(a, b, MBits(a) - 1, <<>>, <<>>)

\* limb-wise bitwise operators on magnitudes (non-negative values)
MBitOp(op, a, b) ==
  MNorm([i \in 1..WMaxLen(a, b) |->
     CASE op = "&" -> WLimb(a, i) & WLimb(b, i)
       [] op = "|" -> WLimb(a, i) | WLimb(b, i)
       [] op = "^" -> WLimb(a, i) ^^ WLimb(b, i)])

\* ---------------- signed wide integers ----------------
WMk(neg, m) == [neg |-> neg /\ m # <<>>, m |-> m]
WZero == WMk(FALSE, <<>>)
\* from a TLC integer (|n| < 2^31; -2^31 handled separately)
WFromInt(n) == IF n >= 0 THEN WMk(FALSE, MFromNat(n))
               ELSE IF n = -2147483647 - 1 THEN WMk(TRUE, MPow2(31))
               ELSE WMk(TRUE, MFromNat(-n))
WNeg(x) == WMk(~x.neg, x.m)
WAdd(x, y) == IF x.neg = y.neg THEN WMk(x.neg, MAdd(x.m, y.m))
              ELSE LET c == MCmp(x.m, y.m) IN
                   IF c = 0 THEN WZero ELSE IF c > 0 THEN WMk(x.neg, MSub(x.m, y.m)) ELSE WMk(y.neg, MSub(y.m, x.m))
WSub(x, y) == WAdd(x, WNeg(y))
WMul(x, y) == WMk(x.neg # y.neg, MMul(x.m, y.m))
WCmp(x, y) == IF x.neg /\ ~y.neg THEN -1 ELSE IF ~x.neg /\ y.neg THEN 1
              ELSE IF x.neg THEN -MCmp(x.m, y.m) ELSE MCmp(x.m, y.m)
\* C division truncates toward zero; the remainder has the sign of the dividend (y # 0)
WDiv(x, y) == WMk(x.neg # y.neg, MDivMod(x.m, y.m).q)
WMod(x, y) == WMk(x.neg, MDivMod(x.m, y.m).r)

\* does the value fit a TLC integer?  (|v| <= 2^31 - 1, or v = -2^31)
WFitsInt(x) == MCmp(x.m, MPow2(31)) < 0 \/ (x.neg /\ x.m = MPow2(31))
RECURSIVE MToNat(_, _)
MToNat(m, i) == IF i = 0 THEN 0 ELSE m[i] + WBASE * MToNat(m, i - 1)
\* (evaluated from the top limb down: no intermediate exceeds the result)
RECURSIVE MToNatTop(_, _, _)
MToNatTop(m, i, acc) == IF i = 0 THEN acc ELSE MToNatTop(m, i - 1, acc * WBASE + m[i])
WToInt(x) == IF x.neg /\ x.m = MPow2(31) THEN -2147483647 - 1
             ELSE LET n == MToNatTop(x.m, Len(x.m), 0) IN IF x.neg THEN -n ELSE n

\* range of an N-bit type
WInRange(x, bits, signed) ==
  IF signed THEN (IF x.neg THEN MCmp(x.m, MPow2(bits - 1)) <= 0 ELSE MCmp(x.m, MPow2(bits - 1)) < 0)
  ELSE ~x.neg /\ MCmp(x.m, MPow2(bits)) < 0
\* the N-bit two's complement pattern of x as a non-negative magnitude (x mod 2^N)
WPattern(x, bits) == IF ~x.neg THEN MLow(x.m, bits)
                    ELSE LET low == MLow(x.m, bits) IN IF low = <<>> THEN <<>> ELSE MSub(MPow2(bits), low)
\* the value of type (bits, signed) with that pattern
WFromPattern(p, bits, signed) ==
  IF signed /\ MCmp(p, MPow2(bits - 1)) >= 0 THEN WMk(TRUE, MSub(MPow2(bits), p)) ELSE WMk(FALSE, p)
\* conversion to an N-bit type (modular; for signed targets this is what gcc does: implementation-defined, not undefined)
WConv(x, bits, signed) == IF WInRange(x, bits, signed) THEN x ELSE WFromPattern(WPattern(x, bits), bits, signed)

WBitOp(op, x, y, bits, signed) == WFromPattern(MBitOp(op, WPattern(x, bits), WPattern(y, bits)), bits, signed)
\* shifts of an N-bit value by 0 <= n < N: left shift of the pattern (unsigned: modular); arithmetic right shift
WShl(x, n, bits, signed) == WFromPattern(MLow(MShl(WPattern(x, bits), n), bits), bits, signed)
WShr(x, n, bits, signed) ==
  IF ~x.neg THEN WMk(FALSE, MShr(x.m, n))
  ELSE \* floor division by 2^n of a negative value: -ceil(|x| / 2^n)
       LET q == MShr(x.m, n) rem == MLow(x.m, n) IN WMk(TRUE, IF rem = <<>> THEN q ELSE MAdd(q, <<1>>))
=============================================================================
