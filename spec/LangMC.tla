------------------------------- MODULE LangMC -------------------------------
(***************************************************************************)
(* Exploration of the source semantics alone (C09): for every program the  *)
(* real compiler ACCEPTED, no reachable configuration may admit two        *)
(* continuations for the next symbol.  Cases[cid] = [mi (machine, used for *)
(* declarations and options only), body, syms, maxlen].                    *)
(* Configurations are explored "eagerly" (every pending action performed), *)
(* so each is either finished or waiting for a symbol; Ambiguous is        *)
(* evaluated for every symbol at each of them.                             *)
(***************************************************************************)
EXTENDS NmfuLang, Json, CasesData

VARIABLES cid, cfg, st, hist
vars == <<cid, cfg, st, hist>>
View == <<cid, cfg, st>>
Bound == Len(hist) <= Cases[cid].maxlen
M == Machines[Cases[cid].mi]

Eager(outs) == {o[2] : o \in {x \in outs : ~ActionOnTop(Settle(M, x[2], FUELL))}}

Init == cid \in 1..Len(Cases) /\ st = "start" /\ hist = <<>>
        /\ cfg = Cfg(<<FS(Cases[cid].body)>>, InitStore(M), "run", "")

Start == /\ st = "start"
         /\ \E c2 \in Eager(LangStart(M, Cases[cid].body)) :
              cfg' = Settle(M, c2, FUELL) /\ st' = "run" /\ UNCHANGED <<cid, hist>>

Sym(c) ==
  /\ st = "run" /\ cfg.st = "run"
  /\ LET amb == Ambiguous(cfg, c) IN
     /\ amb => PrintT("@@" \o ToJson([kind |-> "AMBIGUOUS", cid |-> cid, hist |-> Append(hist, c), top |-> Head(cfg.K).f]))
     /\ \E c2 \in Eager(LangByte(M, cfg, c)) :
          /\ cfg' = Settle(M, c2, FUELL) /\ hist' = Append(hist, c) /\ cid' = cid
          /\ st' = IF amb \/ c2.st = "amb" THEN "amb" ELSE IF c2.st \in {"run"} THEN "run" ELSE "end"
          /\ (c2.st = "amb") => PrintT("@@" \o ToJson([kind |-> "AMBIGUOUS", cid |-> cid, hist |-> Append(hist, c), top |-> "tie"]))

Next == Start \/ \E c \in Cases[cid].syms : Sym(c)
Spec == Init /\ [][Next]_vars
=============================================================================
