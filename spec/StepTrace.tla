------------------------------ MODULE StepTrace ------------------------------
(***************************************************************************)
(* Exhaustive single-step conformance of the emitted C with the compiled   *)
(* machine (property C06).                                                 *)
(*                                                                         *)
(* Cases[cid] = [mi |-> machine index, S |-> sweeps] ; one sweep is the    *)
(* driver's record of forcing a context (state index q, store d) and then  *)
(* feeding, from that same context, every single byte 0..255 as a one-byte *)
(* chunk and (with EOF support) calling end():                             *)
(*   [q, d, outs |-> <<distinct outcomes>>, idx |-> 257 indices into outs]  *)
(*   outcome = [rc, adv, q, d, hooks]                                      *)
(* One TLC step validates one sweep: for every symbol the specification's  *)
(* ByteStep / EndStep from (q, d) must equal the logged outcome.           *)
(***************************************************************************)
EXTENDS NmfuMachine, Json, CasesData

VARIABLES cid, si, verdict
vars == <<cid, si, verdict>>

M == Machines[Cases[cid].mi]
S == Cases[cid].S

Report(kind, x) == PrintT("@@" \o ToJson([kind |-> kind, cid |-> cid] @@ x))

Init == cid \in 1..Len(Cases) /\ si = 1 /\ verdict = "run"

HooksEq(spec, logged) ==
  /\ Len(spec) = Len(logged)
  /\ \A i \in 1..Len(spec) : spec[i].n = logged[i].n /\ spec[i].iv = logged[i].iv /\ spec[i].snap = logged[i].d

\* what a one-byte feed call returns for the machine result r
Expected(r) == IF r.res = "next" THEN [rc |-> "OK", adv |-> 1] ELSE [rc |-> r.res, adv |-> r.adv]

\* "" if the logged outcome o agrees with r, else the name of the first failing clause
Clause(r, o, isEnd) ==
  LET x == Expected(r) IN
  IF x.rc # o.rc THEN "rc"
  ELSE IF ~isEnd /\ o.adv # -1 /\ x.adv # o.adv THEN "adv"
  ELSE IF r.q # o.q THEN "q"
  ELSE IF r.d # o.d THEN "d"
  ELSE IF ~HooksEq(r.ev, o.hooks) THEN "hooks"
  ELSE ""

Syms(sw) == {c \in 0..256 : sw.idx[c + 1] # -1}

Step ==
  /\ verdict = "run"
  /\ LET sw == S[si]
         Rs(c) == IF c = END THEN EndStep(M, sw.q, sw.d) ELSE ByteStep(M, sw.q, sw.d, c)
         und == {c \in Syms(sw) : Rs(c).res \in {"ub", "wide", "SPIN"}}
         bad == {c \in Syms(sw) \ und : Clause(Rs(c), sw.outs[sw.idx[c + 1] + 1], c = END) # ""}
     IN /\ si' = si + 1 /\ cid' = cid
        /\ verdict' = IF bad # {} THEN "rejected" ELSE IF si = Len(S) THEN "accepted" ELSE "run"
        /\ IF bad # {}
           THEN LET c == CHOOSE x \in bad : \A y \in bad : x <= y
                    r == Rs(c) o == sw.outs[sw.idx[c + 1] + 1] IN
                Report("REJECT", [si |-> si, q |-> sw.q, sym |-> c, nbad |-> Cardinality(bad), clause |-> Clause(r, o, c = END),
                                  pre |-> sw.d,
                                  spec |-> [rc |-> Expected(r).rc, adv |-> Expected(r).adv, q |-> r.q, d |-> r.d, hooks |-> r.ev, why |-> r.why],
                                  impl |-> o])
           ELSE TRUE
        /\ (und # {}) => Report("UNDEF", [si |-> si, q |-> sw.q, n |-> Cardinality(und),
                                          why |-> Rs(CHOOSE x \in und : TRUE).res])
        /\ (bad = {} /\ si = Len(S)) => Report("ACCEPT", [n |-> Len(S)])

Spec == Init /\ [][Step]_vars
=============================================================================
