------------------------------- MODULE NmfuArgv -------------------------------
(***************************************************************************)
(* The whole command line of nmfu (docs/user-ref/cli.md, `nmfu --help`),   *)
(* token by token: property C19 beyond the flag relations of NmfuFlags.    *)
(*                                                                         *)
(*   nmfu [options] input                                                  *)
(*     -o<name> | --output <name>      output name without extension       *)
(*     -O<level>                       0..3                                *)
(*     -f<flag> | -fno-<flag> | --flag <flag>[=yes|on|no|off]              *)
(*     -d<kinds> | --dump <kinds>      comma separated dump kinds          *)
(*     --dump-prefix <p>   -t | --dry-run   -h | --help | --help-all |     *)
(*     --version            --collapsed-range-length <n>  (and the other   *)
(*     generation options)                                                 *)
(*                                                                         *)
(* A command line is a sequence of argv strings.  The harness's lexer      *)
(* (Python, independent of nmfu) supplies for every string of the alphabet *)
(* its lexical facts - Argv[i] = [cls, o, v, ...] - and this module gives   *)
(* the meaning: a left-to-right scan in which a long option takes the next *)
(* argv element, whatever it looks like, as its value.  The result is      *)
(* k = "E" (a diagnosed error), "X" (help / version: the process exits) or *)
(* "cfg" with c = <<inp, name, dry, dumps, prefix, crl, mask>>,            *)
(* where the flags are resolved by NmfuFlags!Resolve.                      *)
(*                                                                         *)
(* Stated requirements (C19): the configuration does not depend on where   *)
(* the options stand relative to each other and to the input file - in     *)
(* particular an explicit output name holds whether it is given before the *)
(* input file (the documented position) or after it; unknown or malformed  *)
(* options are errors, never ignored.                                      *)
(***************************************************************************)
EXTENDS NmfuFlags, ArgvData, Json

\* ArgvData (generated): Alphabet = sequence of records
\*   [cls |-> "empty" | "pos" | "dash" | "short" | "long",
\*    o |-> option letter / long option name,  stem |-> sanitised file stem (pos),
\*    v |-> index into Values of the value a short option carries]
\* Values = sequence of value facts, Alphabet[i].self = index of the string itself in Values (used when it is taken as a long option's value)
\*   [txt, int |-> [ok, n], dot |-> BOOLEAN, fshort |-> [name, val], flong |-> [ok, name, val], dumps |-> [ok, kinds]]
\* K = length of the enumerated command lines

NoValueLong == {"help", "dry-run", "version", "help-all"}
DumpKinds == {"ast", "dfa", "traceback", "parse", "dtree"}
IntOptions == {"collapsed-range-length", "max-shortcircuit-fallthrough", "max-shortcircuit-action-penalty", "debug-dfa-hide-threshold"}

St0 == [out |-> "run", inp |-> "", hasinp |-> FALSE, stem |-> "", oname |-> "", hasoname |-> FALSE, level |-> 1, ov |-> <<>>,
        dry |-> FALSE, dumps |-> <<>>, prefix |-> "", hasprefix |-> FALSE, crl |-> 4]

Err(st) == [st EXCEPT !.out = "E"]

\* apply option `name` (short letter or long name) with value facts val
Apply(st, name, val) ==
  CASE name \in {"o", "output"} -> IF val.dot THEN Err(st) ELSE [st EXCEPT !.oname = val.txt, !.hasoname = TRUE]
    [] name = "O" -> IF val.int.ok /\ val.int.n \in 0..3 THEN [st EXCEPT !.level = val.int.n] ELSE Err(st)
    [] name = "f" -> IF val.fshort.name \in Flags THEN [st EXCEPT !.ov = Append(@, [f |-> val.fshort.name, v |-> val.fshort.val])] ELSE Err(st)
    [] name = "flag" -> IF val.flong.ok /\ val.flong.name \in Flags THEN [st EXCEPT !.ov = Append(@, [f |-> val.flong.name, v |-> val.flong.val])] ELSE Err(st)
    [] name \in {"h", "help", "help-all", "version"} -> [st EXCEPT !.out = "X"]
    [] name \in {"d", "dump"} -> IF val.dumps.ok /\ \A i \in DOMAIN val.dumps.kinds : val.dumps.kinds[i] \in DumpKinds
                                  THEN [st EXCEPT !.dumps = @ \o val.dumps.kinds] ELSE Err(st)
    [] name = "dump-prefix" -> [st EXCEPT !.prefix = val.txt, !.hasprefix = TRUE]
    [] name \in {"t", "dry-run"} -> [st EXCEPT !.dry = TRUE]
    [] name = "collapsed-range-length" -> IF val.int.ok THEN [st EXCEPT !.crl = val.int.n] ELSE Err(st)
    [] name \in IntOptions -> IF val.int.ok THEN st ELSE Err(st)
    [] OTHER -> Err(st)                                         \* unknown option

RECURSIVE Scan(_, _, _)
Scan(argv, i, st) ==
  IF st.out # "run" \/ i > Len(argv) THEN st
  ELSE LET a == Alphabet[argv[i]] IN
    CASE a.cls = "empty" -> Scan(argv, i + 1, st)
      [] a.cls = "pos" -> IF st.hasinp THEN Err(st) ELSE Scan(argv, i + 1, [st EXCEPT !.hasinp = TRUE, !.inp = Values[a.self].txt, !.stem = a.stem])
      [] a.cls = "dash" -> Err(st)
      [] a.cls = "short" -> Scan(argv, i + 1, Apply(st, a.o, Values[a.v]))
      [] a.cls = "long" ->
           IF a.o \in NoValueLong THEN Scan(argv, i + 1, Apply(st, a.o, Values[1]))
           ELSE IF i = Len(argv) THEN Err(st)                   \* missing value
           ELSE Scan(argv, i + 2, Apply(st, a.o, Values[Alphabet[argv[i + 1]].self]))

\* the 16 flags of NmfuFlags in one mask: related flags first
AllFlags == Rel \o Opt
RECURSIVE Mask(_, _)
Mask(fl, i) == IF i > Len(AllFlags) THEN 0 ELSE (IF fl[AllFlags[i]] THEN 1 ELSE 0) + 2 * Mask(fl, i + 1)

Outcome(argv) ==
  LET st == Scan(argv, 1, St0) IN
  IF st.out # "run" THEN [k |-> st.out, c |-> <<>>]
  ELSE IF ~st.hasinp THEN [k |-> "E", c |-> <<>>]
  ELSE LET r == Resolve(st.level, st.ov) IN
       IF r.err THEN [k |-> "E", c |-> <<>>]
       ELSE LET name == IF st.hasoname THEN st.oname ELSE st.stem IN           \* an explicit output name holds wherever it stands
            [k |-> "cfg", c |-> <<st.inp, name, st.dry, st.dumps, IF st.hasprefix THEN st.prefix ELSE name, st.crl, Mask(r.fl, 1)>>]

\* ---- enumeration of all command lines of length K over the alphabet ----
NA == Len(Alphabet)
RECURSIVE PowN(_)
PowN(k) == IF k = 0 THEN 1 ELSE NA * PowN(k - 1)
ArgvOf(m) == [i \in 1..K |-> ((m \div PowN(K - i)) % NA) + 1]

\* ---- order independence of the output name and of independent options, stated on the specification ----
\* (position of the input file relative to the options does not matter)
Rot(s) == IF Len(s) < 2 THEN s ELSE Tail(s) \o <<Head(s)>>
NoLong(argv) == \A i \in DOMAIN argv : Alphabet[argv[i]].cls # "long"
InvOrderArgv ==
  LET av == ArgvOf(n) o == Outcome(av) IN
  \* moving the first element to the end changes nothing observable when no element takes its neighbour as a value, no flag is
  \* mentioned twice and the outcome is a configuration (error precedence among several faults is not specified)
  (NoLong(av) /\ o.k = "cfg" /\ Outcome(Rot(av)).k = "cfg") =>
      LET p == Outcome(Rot(av)).c IN o.c[1] = p[1] /\ o.c[2] = p[2] /\ o.c[3] = p[3] /\ o.c[5] = p[5]

EmitArgv == PrintT("@@" \o ToJson([n |-> n, o |-> Outcome(ArgvOf(n))]))
InvEmitArgv == EmitArgv
=============================================================================
