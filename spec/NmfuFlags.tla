------------------------------ MODULE NmfuFlags ------------------------------
(***************************************************************************)
(* Resolution of command-line options into the effective configuration     *)
(* (ProgramData.load_commandline_flags), property C19.                     *)
(*                                                                         *)
(* The metadata below (defaults, implies, exclusive_with, -O level table)  *)
(* is the specification's own transcription of the documented relations;   *)
(* conformance runs the real function on every command line TLC enumerates *)
(* and compares the final configuration (or the error) with Resolve.       *)
(*                                                                         *)
(* A command line is abstracted to (level, ov) where ov is the sequence of *)
(* explicit settings <<[f |-> flag, v |-> BOOLEAN], ...>> in the order in  *)
(* which they were given (-f<flag>, -fno-<flag>, --flag <flag>=yes|no).    *)
(***************************************************************************)
EXTENDS Integers, Sequences, FiniteSets, TLC

\* the eleven flags related by implies / exclusive metadata, in the canonical enumeration order
Rel == <<"CODEPOINTS_IN_ERRORS", "DEBUG_DFA_BINARY_LABELS", "YIELD_SUPPORT", "INDIRECT_START_PTR",
         "ALLOCATE_STR_SPACE_IN_STRUCT", "ALLOCATE_STR_SPACE_DYNAMIC", "DYNAMIC_MEMORY",
         "ALLOCATE_STR_SPACE_DYNAMIC_ON_DEMAND", "DELETE_STRING_FREE_MEMORY", "HOOK_GLOBAL", "HOOK_PER_STATE">>
\* the optimisation flags, switched on cumulatively by -O<level>
Opt == <<"SIMPLIFY_ELSE_CONDITIONS", "REMOVE_INACCESIBLE_STATES", "COLLAPSE_TRANSITION_RANGES",
         "USE_DELETE_FOR_EMPTY_STRING", "SHORTCIRCUIT_FALLTHROUGHS">>
Range(s) == {s[i] : i \in DOMAIN s}
Flags == Range(Rel) \cup Range(Opt)

DefaultOn == {"ALLOCATE_STR_SPACE_IN_STRUCT", "HOOK_GLOBAL"}

Implies(f) == CASE f = "CODEPOINTS_IN_ERRORS" -> {"DEBUG_DFA_BINARY_LABELS"}
                [] f = "YIELD_SUPPORT" -> {"INDIRECT_START_PTR"}
                [] f = "ALLOCATE_STR_SPACE_DYNAMIC" -> {"DYNAMIC_MEMORY"}
                [] f = "ALLOCATE_STR_SPACE_DYNAMIC_ON_DEMAND" -> {"ALLOCATE_STR_SPACE_DYNAMIC"}
                [] OTHER -> {}
Exclusive(f) == CASE f = "ALLOCATE_STR_SPACE_IN_STRUCT" -> {"ALLOCATE_STR_SPACE_DYNAMIC"}
                  [] f = "ALLOCATE_STR_SPACE_DYNAMIC" -> {"ALLOCATE_STR_SPACE_IN_STRUCT"}
                  [] f = "DELETE_STRING_FREE_MEMORY" -> {"ALLOCATE_STR_SPACE_IN_STRUCT"}
                  [] f = "HOOK_PER_STATE" -> {"HOOK_GLOBAL"}
                  [] OTHER -> {}

LevelFlags(l) == (IF l >= 1 THEN {"SIMPLIFY_ELSE_CONDITIONS", "REMOVE_INACCESIBLE_STATES"} ELSE {})
            \cup (IF l >= 2 THEN {"COLLAPSE_TRANSITION_RANGES", "USE_DELETE_FOR_EMPTY_STRING"} ELSE {})
            \cup (IF l >= 3 THEN {"SHORTCIRCUIT_FALLTHROUGHS"} ELSE {})

\* ---- the algorithm, step by step as the implementation performs it ----
\* explicit settings: last occurrence of a flag wins; iteration order = order of first occurrence
Mentioned(ov) == {ov[i].f : i \in DOMAIN ov}
LastVal(ov, f) == LET is == {i \in DOMAIN ov : ov[i].f = f} IN ov[CHOOSE i \in is : \A j \in is : j <= i].v
RECURSIVE FirstOrder(_, _, _)
FirstOrder(ov, i, seen) == IF i > Len(ov) THEN <<>>
                           ELSE IF ov[i].f \in seen THEN FirstOrder(ov, i + 1, seen)
                           ELSE <<ov[i].f>> \o FirstOrder(ov, i + 1, seen \cup {ov[i].f})

ApplyLevel(l) == [f \in Flags |-> f \in DefaultOn \/ f \in LevelFlags(l)]
ApplyOverrides(fl, ov) == [f \in Flags |-> IF f \in Mentioned(ov) THEN LastVal(ov, f) ELSE fl[f]]

RECURSIVE ImplyFix(_)
ImplyFix(fl) == LET nf == [f \in Flags |-> fl[f] \/ \E g \in Flags : fl[g] /\ f \in Implies(g)]
                IN IF nf = fl THEN fl ELSE ImplyFix(nf)

\* aux(flag) of the implementation: conflicts of the flag, then of everything it implies
RECURSIVE Aux(_, _, _)
Aux(flag, st, ov) ==
  IF st.err THEN st
  ELSE LET cs == Exclusive(flag)
           clash == \E c \in cs : c \in Mentioned(ov) /\ LastVal(ov, c)
           fl2 == [f \in Flags |-> IF f \in cs THEN FALSE ELSE st.fl[f]]
           st2 == IF clash THEN [st EXCEPT !.err = TRUE] ELSE [st EXCEPT !.fl = fl2]
           imps == Implies(flag)
       IN IF clash \/ imps = {} THEN st2 ELSE Aux(CHOOSE g \in imps : TRUE, st2, ov)     \* every flag implies at most one
RECURSIVE ExcludePass(_, _, _, _)
ExcludePass(keys, i, st, ov) ==
  IF i > Len(keys) \/ st.err THEN st
  ELSE ExcludePass(keys, i + 1, IF st.fl[keys[i]] THEN Aux(keys[i], st, ov) ELSE st, ov)

Resolve(l, ov) ==
  LET fl == ImplyFix(ApplyOverrides(ApplyLevel(l), ov))
  IN ExcludePass(FirstOrder(ov, 1, {}), 1, [fl |-> fl, err |-> FALSE], ov)

\* ---- properties of a resolved configuration ----
ImpliedOn(r) == r.err \/ \A f \in Flags : r.fl[f] => \A g \in Implies(f) : r.fl[g]
ExclusiveNeverBoth(r) == r.err \/ \A f \in Flags : r.fl[f] => \A g \in Exclusive(f) : ~r.fl[g]
\* explicitly requesting two mutually exclusive flags is an error
ExplicitConflictIsError(r, ov) ==
  (\E f \in Mentioned(ov) : LastVal(ov, f) /\ \E g \in Exclusive(f) : g \in Mentioned(ov) /\ LastVal(ov, g)) => r.err
\* an explicit setting survives unless an implication (on) or an exclusion by another explicit flag (off) overrides it
ExplicitBeatsLevel(r, l, ov) ==
  r.err \/ \A f \in Range(Opt) : f \in Mentioned(ov) => r.fl[f] = LastVal(ov, f)
LevelsCumulative(l) == l = 0 \/ \A f \in Flags : Resolve(l - 1, <<>>).fl[f] => Resolve(l, <<>>).fl[f]

\* ---- exhaustive enumeration: every on/off/absent assignment of the related flags x every level ----
\* a case index n encodes level * 3^11 + sum digit_i * 3^(i-1); digit 0 absent, 1 on, 2 off
RECURSIVE Pow3(_)
Pow3(k) == IF k = 0 THEN 1 ELSE 3 * Pow3(k - 1)
CONSTANT Which                 \* "rel": enumerate the related flags;  "opt": enumerate the optimisation flags
Enum == IF Which = "rel" THEN Rel ELSE Opt
Digit(n, i) == (n \div Pow3(i - 1)) % 3
RECURSIVE OvOf(_, _)
OvOf(n, i) == IF i > Len(Enum) THEN <<>>
              ELSE (IF Digit(n, i) = 0 THEN <<>> ELSE <<[f |-> Enum[i], v |-> Digit(n, i) = 1]>>) \o OvOf(n, i + 1)
Reverse(s) == [i \in 1..Len(s) |-> s[Len(s) + 1 - i]]
Rotate(s) == IF Len(s) < 2 THEN s ELSE Tail(s) \o <<Head(s)>>
Perms(s) == {p \in [1..Len(s) -> 1..Len(s)] : \A i, j \in 1..Len(s) : i # j => p[i] # p[j]}
Permuted(s, p) == [i \in 1..Len(s) |-> s[p[i]]]

RECURSIVE MaskOf(_, _)
MaskOf(fl, i) == IF i > Len(Enum) THEN 0 ELSE (IF fl[Enum[i]] THEN 1 ELSE 0) + 2 * MaskOf(fl, i + 1)
Code(r) == IF r.err THEN -1 ELSE MaskOf(r.fl, 1)

CONSTANTS Lo, Hi, Stride      \* the cases Lo, Lo+Stride, Lo+2*Stride, ... <= Hi are enumerated
Par == 16                     \* as Par independent chains so that all TLC workers share the work
VARIABLE n
vars == <<n>>
Total == 4 * Pow3(Len(Enum))

Init == n \in {Lo + Stride * c : c \in 0..(Par - 1)} /\ n <= Hi
Next == n + Stride * Par <= Hi /\ n' = n + Stride * Par
Spec == Init /\ [][Next]_vars

Level(k) == k \div Pow3(Len(Enum))
R(k) == Resolve(Level(k), OvOf(k % Pow3(Len(Enum)), 1))

\* checked as invariants of every enumerated case
InvImplied == ImpliedOn(R(n))
InvExclusive == ExclusiveNeverBoth(R(n))
InvConflict == ExplicitConflictIsError(R(n), OvOf(n % Pow3(Len(Enum)), 1))
InvExplicit == ExplicitBeatsLevel(R(n), Level(n), OvOf(n % Pow3(Len(Enum)), 1))
InvLevels == LevelsCumulative(Level(n))
InvOrder ==
  LET ov == OvOf(n % Pow3(Len(Enum)), 1) l == Level(n) base == Code(Resolve(l, ov)) IN
  /\ Code(Resolve(l, Reverse(ov))) = base
  /\ Code(Resolve(l, Rotate(ov))) = base
  /\ (Len(ov) <= 4 => \A p \in Perms(ov) : Code(Resolve(l, Permuted(ov, p))) = base)
\* expected result of each case, for conformance with the real function (one line per case)
Emit == PrintT(<<"R", n, Code(R(n))>>)
InvEmit == Emit
=============================================================================
