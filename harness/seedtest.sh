#!/bin/sh
# usage: seedtest.sh <seed-dir-name> <property> [tier]   -- apply a seeded change to /repo, run a check, always revert
S=/verif/seeded/$1
P=$2
T=${3:-quick}
cd /repo || exit 2
git diff --quiet || { echo "repo dirty"; exit 2; }
git apply "$S/patch.diff" || { echo "patch does not apply"; exit 2; }
cd /verif
timeout 3000 harness/check $P --tier $T > /tmp/seedtest_$1_$P.log 2>&1
rc=$?
git -C /repo checkout -- .
echo "seed=$1 check=$P rc=$rc"
grep -c "^VIOLATION" /tmp/seedtest_$1_$P.log
grep -A1 "^VIOLATION" /tmp/seedtest_$1_$P.log | head -6 | cut -c1-400
grep "MACHINERY" /tmp/seedtest_$1_$P.log | head -3 | cut -c1-300
exit 0
