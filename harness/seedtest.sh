#!/bin/sh
# usage: seedtest.sh <seed-dir-name> <property> [tier]
# Runs one check against a scratch copy of /repo's working tree with the seeded change applied (NMFU_REPO), evidence and
# replay files redirected to the scratch directory (VERIF_OUT); the scratch copy is always removed.  /repo is not touched,
# so several seeds can be tried in parallel and committed evidence is never overwritten.
S=/verif/seeded/$1
P=$2
T=${3:-quick}
W=$(mktemp -d /tmp/seedwt.XXXXXX)
trap 'rm -rf "$W"' EXIT
mkdir -p "$W/repo" "$W/out"
(cd /repo && git ls-files -z | xargs -0 cp --parents -t "$W/repo") || exit 2
(cd "$W/repo" && git init -q . && git apply "$S/patch.diff") || { echo "patch does not apply"; exit 2; }
cd /verif
LOG=/tmp/seedtest_$1_$P.log
NMFU_REPO="$W/repo" VERIF_OUT="$W/out" timeout 6000 harness/check $P --tier $T > $LOG 2>&1
rc=$?
echo "seed=$1 check=$P tier=$T rc=$rc violations=$(grep -c '^VIOLATION' $LOG)"
grep -A1 "^VIOLATION" $LOG | head -4 | cut -c1-400
grep "MACHINERY" $LOG | head -3 | cut -c1-300
exit 0
