"""Exhaustive single-step sweeps (C06): forced contexts -> driver 'A' command -> StepTrace cases."""
import random, json
import trace, cbuild
from tlagen import tla, TMap, MAXI


def _lits(e, acc):
    if isinstance(e, dict):
        if e.get('k') == 'lit' and isinstance(e.get('v'), int):
            acc.add(e['v'])
        for v in e.values():
            _lits(v, acc)
    elif isinstance(e, list):
        for v in e:
            _lits(v, acc)


def interesting_ints(m):
    acc = set()
    _lits(m['states'], acc)
    _lits(m['start_actions'], acc)
    out = {0, 1, 2, 3}
    for v in acc:
        out.update({v - 1, v, v + 1})
    return sorted(x for x in out if abs(x) < 2 ** 30)


def int_range(o):
    w = o['width']
    if o['signed']:
        return -(1 << (8 * w - 1)), (1 << (8 * w - 1)) - 1
    return 0, (1 << (8 * w)) - 1


def make_contexts(m, rng, k):
    """list of command lists (V/B) forcing every output; first context = untouched (as start() left it)"""
    ints = interesting_ints(m)
    alpha = sorted({b for st in m['states'] for t in st['trans'] for b in (t['on'] if len(t['on']) < 20 else [])} | {97, 0, 200})
    ctxs = [[]]
    bools = [o for o in m['outs'] if o['type'] == 'bool']
    if bools and len(bools) <= 4 and all(o['type'] in ('bool', 'int') for o in m['outs']):
        # few boolean outputs: enumerate every combination (ints stay as start() left them unless listed below)
        import itertools
        for combo in itertools.product([0, 1], repeat=len(bools)):
            ctxs.append(['V %s %d' % (o['name'], v) for o, v in zip(bools, combo)])
        return ctxs
    fills = ['empty', 'near', 'full']
    for j in range(k - 1):
        cmds = []
        fill = fills[j % 3] if j < 3 else rng.choice(fills + ['mid'])
        for o in m['outs']:
            n = o['name']
            if o['type'] == 'int':
                lo, hi = int_range(o)
                cand = [v for v in ints if lo <= v <= hi] or [0]
                v = rng.choice(cand) if rng.random() < 0.85 else rng.randint(max(lo, -1000), min(hi, 1000))
                if hi > MAXI and rng.random() < 0.3:
                    # types wider than the TLC integers: boundary values beyond 32 bits (the specification's limb model)
                    big = [x for x in (MAXI, MAXI + 1, 2 ** 32 - 1, 2 ** 32, 2 ** 32 + 5, 3000000000, 2 ** 63 - 1, 2 ** 63, 2 ** 64 - 1,
                                       -MAXI - 1, -MAXI - 2, -2 ** 32, -2 ** 63, 10 ** 12, -10 ** 12) if lo <= x <= hi]
                    v = rng.choice(big)
                # the driver reads a signed 64-bit value and casts it to the output's type
                cmds.append('V %s %d' % (n, v - 2 ** 64 if v >= 2 ** 63 else v))
            elif o['type'] == 'bool':
                cmds.append('V %s %d' % (n, rng.randint(0, 1)))
            elif o['type'] == 'enum':
                cmds.append('V %s %d' % (n, rng.randrange(len(o['enum_values']))))
            elif o['type'] in ('str', 'raw'):
                size = o['size'] if o['type'] == 'str' else trace_raw_size(o)
                term = o['type'] == 'str' and o['term']
                cap = size - 1 if term else size
                L = {'empty': 0, 'near': max(cap - 1, 0), 'full': cap, 'mid': rng.randint(0, cap)}[fill]
                # behind the contents of a string: bytes as an earlier, longer value leaves them (never zero, no use of rng; the
                # terminator of a terminated string stays in place) - a bounds-checked s[i] must not let them through
                rest = [0] * (size - L)
                if o['type'] == 'str':
                    rest = [0 if (term and i == 0) else 1 + (37 * (i + j + L)) % 255 for i in range(size - L)]
                buf = [rng.choice(alpha) for _ in range(L)] + rest
                cmds.append('B %s %d %s' % (n, L, bytes(buf).hex()))
        ctxs.append(cmds)
    return ctxs


def trace_raw_size(o):
    return {"int8_t": 1, "uint8_t": 1, "int16_t": 2, "uint16_t": 2, "int32_t": 4, "uint32_t": 4,
            "int64_t": 8, "uint64_t": 8, "float": 4, "double": 8}.get(o.get('raw'), 0)


def sweep_script(m, ctxs, states=None, bytes_=None):
    """bytes_: None = all 256 byte values, else the list of byte values to feed in each sweep"""
    states = list(range(len(m['states']))) if states is None else states
    acmd = 'A' if bytes_ is None else 'a ' + bytes(sorted(set(bytes_))).hex()
    script = ['N', 'S']
    plan = []
    for ci, cmds in enumerate(ctxs):
        for q in states:
            script.extend(cmds)
            script.append('Q %d' % q)
            script.append(acmd)
            plan.append((q, ci))
    return script, plan


def conv_sweeps(events, plan, m):
    """driver 'steps' events -> list of TLA sweep dicts; sweeps with values outside the TLC range are dropped"""
    names = trace.rc_names(m)
    sweeps = []
    dropped = 0
    evs = [e for e in events if e.get('ev') == 'steps']
    for (q, ci), e in zip(plan, evs):
        try:
            outs = []
            for o in e['outs']:
                rc = names[o['rc']] if 0 <= o['rc'] < len(names) else ('TRAP' if o['rc'] == -100 else 'rc%d' % o['rc'])
                outs.append({'rc': rc, 'adv': o['adv'], 'q': o['q'], 'd': trace.conv_store(o['out'], m),
                             'hooks': trace.conv_hooks(o['hooks'], m)})
            sweeps.append({'q': e['q'], 'd': trace.conv_store(e['out'], m), 'outs': outs, 'idx': e['idx'], 'ctx': ci})
        except trace.WideValue:
            dropped += 1
    return sweeps, dropped, len(evs)


def sweeps_module(cases):
    """cases: list of (machine text, [sweeps])"""
    midx = {}
    mtexts = []
    parts = []
    for mt, sw in cases:
        if mt not in midx:
            midx[mt] = len(mtexts) + 1
            mtexts.append(mt)
        sw2 = [{k: v for k, v in s.items() if k != 'ctx'} for s in sw]
        parts.append('[mi |-> %d,\n S |-> %s]' % (midx[mt], tla(sw2)))
    return ('---- MODULE CasesData ----\nEXTENDS Integers, Sequences, TLC\nMachines == <<\n%s\n>>\nCases == <<\n%s\n>>\n====\n'
            % (',\n'.join(mtexts), ',\n'.join(parts)))
