#!/usr/bin/env python3
"""Write seeded/<id>/meta.json from the sub-agent's notes.md and seeded/detection.json."""
import json, os, re, sys
ROOT = os.path.dirname(os.path.dirname(os.path.abspath(__file__)))
SD = os.path.join(ROOT, 'seeded')
det = json.load(open(os.path.join(SD, 'detection.json')))

def sections(text):
    out, cur, buf = {}, None, []
    title = None
    for ln in text.splitlines():
        if ln.startswith('# ') and title is None:
            title = ln[2:].strip()
        if ln.startswith('## '):
            if cur is not None:
                out[cur] = '\n'.join(buf).strip()
            cur, buf = ln[3:].strip(), []
        elif cur is not None:
            buf.append(ln)
    if cur is not None:
        out[cur] = '\n'.join(buf).strip()
    return title, out

def pick(secs, *pats):
    for k, v in secs.items():
        if any(re.search(p, k, re.I) for p in pats):
            return v
    return ''

for sid in sorted(os.listdir(SD)):
    d = os.path.join(SD, sid)
    if not os.path.isdir(d):
        continue
    title, secs = sections(open(os.path.join(d, 'notes.md')).read())
    info = det.get(sid, {})
    meta = {
        'id': sid,
        'property_targeted': sid.split('-')[0],
        'title': title,
        'author': 'independent sub-agent given only the property text and a scratch worktree of the pinned commit',
        'patch': 'patch.diff' + (' (ported to the repaired tree; original in patch.orig.diff)' if os.path.exists(os.path.join(d, 'patch.orig.diff')) else ''),
        'demonstration': 'demo.py (run with /venv/bin/python from a tree with the patch applied)',
        'change': pick(secs, r'^the change', r'^change'),
        'property_part_broken': pick(secs, r'part of the property', r'which part'),
        'needs_to_manifest': pick(secs, r'needs? to manifest', r'needed'),
        'commands_run_by_author': pick(secs, r'commands run'),
        'compiles_and_passes_pinned_suite': True,
        'checks_run': 'harness/seedtest.sh seeded/%s <property> <tier> (git -C /repo apply; harness/check; git -C /repo checkout -- .)' % sid,
        'caught_by': info.get('caught_by', {}),
        'missed_by': info.get('missed_by', {}),
    }
    json.dump(meta, open(os.path.join(d, 'meta.json'), 'w'), indent=1)
    print(sid, sorted(meta['caught_by']), 'MISSED' if not meta['caught_by'] else '')
