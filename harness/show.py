#!/usr/bin/env python3
"""Pretty-print the exported machine of an nmfu source (debug aid)."""
import sys, json, os
sys.path.insert(0, os.path.dirname(os.path.abspath(__file__)))
from compiler import compile_one

def fmt_on(t):
    on = t['on']
    s = ''.join(chr(c) if 33 <= c < 127 else '\\x%02x' % c for c in on[:12]) + ('..(%d)' % len(on) if len(on) > 12 else '')
    if t['els']: s += ' ELSE'
    if t['end']: s += ' END'
    return s

def fmt_act(a):
    o = a['op']
    if o in ('finish', 'yield'): return '%s(%s)' % (o, a['code'])
    if o == 'hook': return 'hook(%s)' % a['name']
    if o in ('append',): return 'append(%s,ovf=%d)' % (a['var'], a['ovf'])
    if o == 'appendc': return 'appendc(%s,%s,ovf=%d)' % (a['var'], json.dumps(a['expr']), a['ovf'])
    if o == 'set': return 'set(%s,%s)' % (a['var'], json.dumps(a['expr']))
    if o == 'setstr': return 'setstr(%s,%r)' % (a['var'], bytes(a['bytes']))
    if o == 'delete': return 'delete(%s)' % a['var']
    if o == 'cond': return 'cond{' + '; '.join(json.dumps(b['cond']) + '=>' + ','.join(fmt_act(x) for x in b['acts']) for b in a['branches']) + '}'
    if o == 'break': return 'break(to=%d,[%s])' % (a['to'], ','.join(fmt_act(x) for x in a['sub']))
    return json.dumps(a)

def show(m):
    for i, s in enumerate(m['states']):
        print(i, s['kind'], 'ACC' if s['acc'] else '', 'proxy' if s['proxy'] else '')
        for t in s['trans']:
            print('     [%s] -> %d %s%s%s%s %s %s' % (fmt_on(t), t['tgt'], 'fall ' if t['fall'] else '', 'err ' if t['err'] else '',
                  'imm ' if t['immdone'] else '', 'early ' if t['early'] else '',
                  json.dumps(t['cond']) if t['cond']['k'] != 'none' else '', ' '.join(fmt_act(a) for a in t['acts'])))
    print('start', m['start'], 'fail', m['fail'], 'start_actions', [fmt_act(a) for a in m['start_actions']])
    print('outs', m['outs'])

if __name__ == '__main__':
    r = compile_one(open(sys.argv[1]).read(), sys.argv[2:])
    print(r['outcome'], r.get('errclass'), r.get('msg'), r.get('tb', ''))
    if 'machine' in r:
        show(r['machine'])
    if '--c' in os.environ.get('SHOW', ''):
        print(r.get('c'))
