"""Build a driver binary for one generated parser: glue header generation + gcc/clang."""
import os, subprocess, json, shutil

HERE = os.path.dirname(os.path.abspath(__file__))
CDRV = os.path.join(HERE, "cdriver")


def gen_glue(m, flags, name="p"):
    f = flags
    L = []
    A = L.append
    A('#include <stdio.h>')
    A('#include "%s.h"' % name)
    A('#define PSTATE %s_state_t' % name)
    A('#define PFX(x) %s_##x' % name)
    A('#define GLUE_INDIRECT %d' % (1 if f['INDIRECT_START_PTR'] else 0))
    A('#define GLUE_HAS_END %d' % (1 if f['EOF_SUPPORT'] else 0))
    A('#define GLUE_HAS_FREE %d' % (1 if f['DYNAMIC_MEMORY'] else 0))
    perstate = f['HOOK_PER_STATE'] and not f['HOOK_GLOBAL']
    dyn = f['ALLOCATE_STR_SPACE_DYNAMIC']
    A('static void log_hook(const char *name, PSTATE *st, uint8_t inval);')
    A('static void hex(FILE *f, const uint8_t *p, size_t n);')
    for h in m['hooks']:
        if perstate:
            A('static void hookfn_%s(PSTATE *st, uint8_t iv);' % h)
    A('static void glue_dump_outs(PSTATE *st, FILE *f) {')
    A('  (void)st; (void)f;')
    first = True
    for o in m['outs']:
        n = o['name']
        sep = '' if first else ','
        first = False
        if o['type'] in ('int', 'bool', 'enum'):
            if o['type'] == 'int' and o['width'] == 8 and not o['signed']:
                A('  fprintf(f, "%s\\"%s\\":{\\"v\\":%%llu}", (unsigned long long)st->c.%s);' % (sep, n, n))
            else:
                A('  fprintf(f, "%s\\"%s\\":{\\"v\\":%%lld}", (long long)st->c.%s);' % (sep, n, n))
        elif o['type'] == 'str':
            if dyn:
                A('  fprintf(f, "%s\\"%s\\":{\\"len\\":%%ld,\\"al\\":\\"%%s\\",\\"buf\\":\\"", (long)st->%s_counter, st->c.%s ? "heap" : "null");' % (sep, n, n, n))
                A('  if (st->c.%s) hex(f, (const uint8_t *)st->c.%s, %d);' % (n, n, o['size']))
            else:
                A('  fprintf(f, "%s\\"%s\\":{\\"len\\":%%ld,\\"al\\":\\"inline\\",\\"buf\\":\\"", (long)st->%s_counter);' % (sep, n, n))
                A('  hex(f, (const uint8_t *)st->c.%s, %d);' % (n, o['size']))
            A('  fprintf(f, "\\"}");')
        elif o['type'] == 'raw':
            A('  fprintf(f, "%s\\"%s\\":{\\"len\\":%%ld,\\"al\\":\\"inline\\",\\"buf\\":\\"", (long)st->%s_counter);' % (sep, n, n))
            A('  hex(f, (const uint8_t *)&st->c.%s, sizeof(st->c.%s));' % (n, n))
            A('  fprintf(f, "\\"}");')
    A('}')
    A('static void glue_install_hooks(PSTATE *st) {')
    A('  (void)st;')
    if perstate:
        for h in m['hooks']:
            A('  st->%s_hook = hookfn_%s;' % (h, h))
    A('}')
    defs = []
    for h in m['hooks']:
        if perstate:
            defs.append('static void hookfn_%s(PSTATE *st, uint8_t iv) { log_hook("%s", st, iv); }' % (h, h))
        else:
            defs.append('void %s_%s_hook(PSTATE *st, uint8_t iv) { log_hook("%s", st, iv); }' % (name, h, h))
    A('#define GLUE_HOOK_DEFS ' + ' '.join(defs))
    A('static void glue_set_scalar(PSTATE *st, const char *name, long long v) {')
    A('  (void)st; (void)name; (void)v;')
    for o in m['outs']:
        if o['type'] in ('int', 'bool', 'enum'):
            A('  if (!strcmp(name, "%s")) { st->c.%s = (__typeof__(st->c.%s))v; return; }' % (o['name'], o['name'], o['name']))
    A('}')
    A('static void glue_set_buf(PSTATE *st, const char *name, const uint8_t *b, size_t n, long len) {')
    A('  (void)st; (void)name; (void)b; (void)n; (void)len;')
    for o in m['outs']:
        n = o['name']
        if o['type'] == 'str':
            if dyn:
                A('  if (!strcmp(name, "%s")) { if (!st->c.%s) st->c.%s = v_malloc(%d); memcpy(st->c.%s, b, n > %d ? %d : n); st->%s_counter = (__typeof__(st->%s_counter))len; return; }'
                  % (n, n, n, o['size'], n, o['size'], o['size'], n, n))
            else:
                A('  if (!strcmp(name, "%s")) { memcpy(st->c.%s, b, n > %d ? %d : n); st->%s_counter = (__typeof__(st->%s_counter))len; return; }'
                  % (n, n, o['size'], o['size'], n, n))
        elif o['type'] == 'raw':
            A('  if (!strcmp(name, "%s")) { memcpy(&st->c.%s, b, n > sizeof(st->c.%s) ? sizeof(st->c.%s) : n); st->%s_counter = (__typeof__(st->%s_counter))len; return; }'
              % (n, n, n, n, n, n))
    A('}')
    # snapshot / restore of the whole parser context (for the single-step sweep)
    dstrs = [o for o in m['outs'] if o['type'] == 'str'] if dyn else []
    A('static PSTATE glue_saved;')
    for o in dstrs:
        A('static int glue_saved_null_%s; static unsigned char glue_saved_buf_%s[%d];' % (o['name'], o['name'], max(1, o['size'])))
    A('static void glue_save(PSTATE *st) {')
    A('  glue_saved = *st;')
    for o in dstrs:
        n = o['name']
        A('  glue_saved_null_%s = (st->c.%s == NULL); if (st->c.%s) memcpy(glue_saved_buf_%s, st->c.%s, %d);' % (n, n, n, n, n, o['size']))
    A('}')
    A('static void glue_restore(PSTATE *st) {')
    for o in dstrs:
        A('  void *p_%s = st->c.%s;' % (o['name'], o['name']))
    A('  *st = glue_saved;')
    for o in dstrs:
        n = o['name']
        A('  if (glue_saved_null_%s) { if (p_%s) v_free(p_%s); st->c.%s = NULL; }' % (n, n, n, n))
        A('  else { if (!p_%s) p_%s = v_malloc(%d); memcpy(p_%s, glue_saved_buf_%s, %d); st->c.%s = p_%s; }' % (n, n, o['size'], n, n, o['size'], n, n))
    A('}')
    return '\n'.join(L) + '\n'


def build(workdir, res, name="p", sanitize=False, extra_cflags=()):
    """res: worker result with 'c','h','machine','flags'. Returns (binary path | None, compiler log)."""
    os.makedirs(workdir, exist_ok=True)
    with open(os.path.join(workdir, name + ".h"), "w") as f:
        f.write(res['h'])
    with open(os.path.join(workdir, name + ".c"), "w") as f:
        f.write(res['c'])
    with open(os.path.join(workdir, "glue.h"), "w") as f:
        f.write(gen_glue(res['machine'], res['flags'], name))
    out = os.path.join(workdir, "drv_san" if sanitize else "drv")
    common = ['-I', workdir, '-I', CDRV, '-DGLUE_HEADER="glue.h"', '-w']
    if sanitize:
        # memory-safety checks only: arithmetic UB of the *user's* expressions (shift counts, signed overflow, division) is
        # outside the properties and must not abort the recorder
        san = 'address,bounds,null,alignment,object-size,pointer-overflow,bool,enum,vla-bound,unreachable,return'
        cc = ['clang', '-O1', '-g', '-fsanitize=' + san, '-fno-sanitize-recover=all', '-fno-omit-frame-pointer']
    else:
        cc = ['gcc', '-O1']
    # the generated source is compiled with malloc/free redirected; the driver itself is not
    obj = os.path.join(workdir, name + ('_san.o' if sanitize else '.o'))
    p1 = subprocess.run(cc + common + list(extra_cflags) + ['-include', os.path.join(CDRV, 'vmem.h'), '-c', os.path.join(workdir, name + '.c'), '-o', obj],
                        capture_output=True, text=True)
    if p1.returncode != 0:
        return None, p1.stderr
    p2 = subprocess.run(cc + common + ['-DVMEM_NO_REDIRECT', os.path.join(CDRV, 'driver.c'), obj, '-o', out], capture_output=True, text=True)
    if p2.returncode != 0:
        return None, p2.stderr
    return out, p1.stderr + p2.stderr


def run_driver(binary, script, timeout=20.0, env=None):
    """script: list of command lines. Returns (events list, rc, stderr); rc None on timeout."""
    e = dict(os.environ)
    e.setdefault('ASAN_OPTIONS', 'detect_leaks=1:abort_on_error=0:exitcode=66')
    e.setdefault('UBSAN_OPTIONS', 'print_stacktrace=0:halt_on_error=1:exitcode=67')
    if env:
        e.update(env)
    try:
        p = subprocess.run([binary], input='\n'.join(script) + '\n', capture_output=True, text=True, timeout=timeout, env=e)
    except subprocess.TimeoutExpired as ex:
        out = ex.stdout.decode() if isinstance(ex.stdout, bytes) else (ex.stdout or '')
        evs = []
        for l in out.splitlines():
            try:
                evs.append(json.loads(l))
            except Exception:
                pass
        return evs, None, 'timeout'
    evs = []
    for l in p.stdout.splitlines():
        try:
            evs.append(json.loads(l))
        except Exception:
            evs.append({'ev': 'garbage', 'text': l[:200]})
    return evs, p.returncode, p.stderr
