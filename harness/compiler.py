"""Parent side of the compile worker: pools of /venv/bin/python processes running
harness/nmfu_worker.py against the repository working tree."""
import json, os, subprocess, sys, threading, time, queue, select

HERE = os.path.dirname(os.path.abspath(__file__))
WORKER = os.path.join(HERE, "nmfu_worker.py")
PY = os.environ.get("NMFU_PY", "/venv/bin/python")
REPO = os.environ.get("NMFU_REPO", "/repo")


class Worker:
    def __init__(self, env_extra=None):
        env = dict(os.environ)
        env["NMFU_REPO"] = REPO
        env.setdefault("PYTHONHASHSEED", "0")
        env["NMFU_VERIF"] = "1"
        if env_extra:
            env.update(env_extra)
        self.env = env
        self.p = None
        self.start()

    def start(self):
        self.p = subprocess.Popen([PY, WORKER], stdin=subprocess.PIPE, stdout=subprocess.PIPE,
                                  stderr=subprocess.DEVNULL, env=self.env, text=True, bufsize=1)

    def kill(self):
        try:
            self.p.kill()
            self.p.wait()
        except Exception:
            pass

    def run(self, job, timeout=60.0):
        """Run one job; returns result dict. On timeout the worker is killed and restarted."""
        try:
            self.p.stdin.write(json.dumps(job) + "\n")
            self.p.stdin.flush()
        except (BrokenPipeError, OSError):
            self.kill()
            self.start()
            return {"id": job.get("id"), "outcome": "internal_error", "errclass": "WorkerDied", "msg": "worker died before job"}
        r, _, _ = select.select([self.p.stdout], [], [], timeout)
        if not r:
            self.kill()
            self.start()
            return {"id": job.get("id"), "outcome": "timeout", "errclass": "Timeout", "msg": "no answer in %.0fs" % timeout}
        line = self.p.stdout.readline()
        if not line:
            rc = self.p.poll()
            self.kill()
            self.start()
            return {"id": job.get("id"), "outcome": "internal_error", "errclass": "WorkerDied", "msg": "worker exited rc=%s" % rc}
        return json.loads(line)

    def close(self):
        try:
            self.p.stdin.close()
            self.p.wait(timeout=5)
        except Exception:
            self.kill()


def run_jobs(jobs, nworkers=None, timeout=60.0, env_extra=None, fresh_each=False):
    """Run jobs (list of dicts with unique 'id') over a pool; returns dict id -> result."""
    jobs = list(jobs)
    if nworkers is None:
        nworkers = min(14, max(1, len(jobs) // 4 + 1))
    q = queue.Queue()
    for j in jobs:
        q.put(j)
    results = {}
    lock = threading.Lock()

    def loop():
        w = Worker(env_extra)
        try:
            while True:
                try:
                    j = q.get_nowait()
                except queue.Empty:
                    break
                r = w.run(j, timeout)
                with lock:
                    results[j["id"]] = r
                if fresh_each:
                    w.close()
                    w = Worker(env_extra)
        finally:
            w.close()

    ts = [threading.Thread(target=loop) for _ in range(nworkers)]
    for t in ts:
        t.start()
    for t in ts:
        t.join()
    return results


def compile_one(src, args=(), name="p", want=("machine", "c"), timeout=60.0, env_extra=None):
    w = Worker(env_extra)
    try:
        return w.run({"id": 0, "src": src, "args": list(args), "name": name, "want": list(want)}, timeout)
    finally:
        w.close()


if __name__ == "__main__":
    src = open(sys.argv[1]).read()
    r = compile_one(src, sys.argv[2:])
    print(json.dumps({k: v for k, v in r.items() if k not in ("c", "h")}, indent=1)[:6000])
