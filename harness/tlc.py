"""Run TLC on a generated model; parse statistics and the JSON report lines the specs print."""
import os, re, subprocess, tempfile, shutil, json, time

HERE = os.path.dirname(os.path.abspath(__file__))
SPEC = os.path.join(os.path.dirname(HERE), "spec")
JAR = "/opt/veriftools/tla/tla2tools.jar"
CM = "/opt/veriftools/tla/CommunityModules-deps.jar"


class TlcResult:
    def __init__(self):
        self.stdout = ''
        self.reports = []      # decoded "@@{json}" lines
        self.generated = 0
        self.distinct = 0
        self.depth = 0
        self.ok = False        # TLC finished without error
        self.error = None      # text of TLC error (invariant violation, evaluation error, ...)
        self.wall = 0.0
        self.timeout = False
        self.coverage = {}


def _unescape(s):
    # TLC prints a string value as "..." with \" and \\ escapes
    out = []
    i = 0
    while i < len(s):
        ch = s[i]
        if ch == '\\' and i + 1 < len(s):
            nx = s[i + 1]
            if nx == 'n':
                out.append('\n')
            elif nx == 't':
                out.append('\t')
            else:
                out.append(nx)
            i += 2
        else:
            out.append(ch)
            i += 1
    return ''.join(out)


def parse_output(text, res):
    for line in text.splitlines():
        if line.startswith('"@@'):
            body = line[3:]
            if body.endswith('"'):
                body = body[:-1]
            try:
                res.reports.append(json.loads(_unescape(body)))
            except Exception as e:
                res.reports.append({'kind': 'UNPARSED', 'text': line[:500], 'err': str(e)})
    m = re.findall(r'(\d+) states generated, (\d+) distinct states found', text)
    if m:
        res.generated, res.distinct = int(m[-1][0]), int(m[-1][1])
    m = re.search(r'depth of the complete state graph search is (\d+)', text)
    if m:
        res.depth = int(m.group(1))
    if 'Model checking completed. No error has been found.' in text:
        res.ok = True
    m = re.search(r'Error: (.*?)(?:\n\n|\Z)', text, re.S)
    if m and not res.ok:
        res.error = m.group(0)[:3000]
    return res


def run_tlc(module, cfg_text, gen_modules=None, workers=4, timeout=600, workdir=None, extra_args=(), xss='16m', heap='4g',
            keep=False, coverage=False):
    """module: name of the root module (a file in spec/ or a generated one).
    gen_modules: {name: text} written next to copies of spec/*.tla."""
    own = workdir is None
    if own:
        workdir = tempfile.mkdtemp(prefix='nmfu_tlc_')
    os.makedirs(workdir, exist_ok=True)
    for f in os.listdir(SPEC):
        if f.endswith('.tla'):
            shutil.copy(os.path.join(SPEC, f), os.path.join(workdir, f))
    for name, text in (gen_modules or {}).items():
        with open(os.path.join(workdir, name + '.tla'), 'w') as f:
            f.write(text)
    with open(os.path.join(workdir, module + '.cfg'), 'w') as f:
        f.write(cfg_text)
    cmd = ['java', '-XX:+UseParallelGC', '-Xss' + xss, '-Xmx' + heap, '-cp', JAR + ':' + CM, 'tlc2.TLC',
           '-workers', str(workers), '-metadir', os.path.join(workdir, 'meta'), '-noGenerateSpecTE', '-nowarning']
    if coverage:
        cmd += ['-coverage', '1']
    cmd += list(extra_args) + [module + '.tla']
    res = TlcResult()
    t0 = time.time()
    try:
        p = subprocess.run(cmd, cwd=workdir, capture_output=True, text=True, timeout=timeout)
        res.stdout = p.stdout + p.stderr
        res.rc = p.returncode
    except subprocess.TimeoutExpired as ex:
        res.timeout = True
        out = ex.stdout.decode() if isinstance(ex.stdout, bytes) else (ex.stdout or '')
        res.stdout = out
        res.rc = None
        subprocess.run(['pkill', '-f', workdir], capture_output=True)
    res.wall = time.time() - t0
    parse_output(res.stdout, res)
    if os.environ.get('NMFU_TLC_KEEP'):
        keep = True
        print('kept TLC workdir', workdir, module, round(res.wall, 1))
    if own and not keep:
        shutil.rmtree(workdir, ignore_errors=True)
    else:
        res.workdir = workdir
    return res


def sany_check(paths):
    """parse modules with SANY; returns (ok, text)"""
    cmd = ['java', '-cp', JAR + ':' + CM, 'tla2sany.SANY'] + list(paths)
    p = subprocess.run(cmd, capture_output=True, text=True, cwd=os.path.dirname(paths[0]))
    ok = p.returncode == 0 and 'error' not in p.stdout.lower().replace('0 errors', '')
    return ok, p.stdout + p.stderr
