"""Generator / front-end AST  ->  the Lang program record of NmfuLang.tla (independent of nmfu's ParseCtx)."""
import string
from tlagen import tla, Raw, TSet, conv_expr, conv_cond, conv_act

END = 256
ALL = frozenset(range(256))
CC = {
    'n': frozenset([10]), 't': frozenset([9]), 'r': frozenset([13]), ' ': frozenset([32]),
    'w': frozenset(map(ord, string.ascii_letters + string.digits + '_')),
    'd': frozenset(map(ord, string.digits)),
    's': frozenset(map(ord, ' \t\n\r\x0b\x0c')),
}
CC['W'] = ALL - CC['w']
CC['D'] = ALL - CC['d']
CC['S'] = ALL - CC['s']


def set_tla(s):
    """render a set of symbols as a union of intervals"""
    xs = sorted(s)
    if not xs:
        return '{}'
    runs = []
    a = b = xs[0]
    for x in xs[1:]:
        if x == b + 1:
            b = x
        else:
            runs.append((a, b))
            a = b = x
    runs.append((a, b))
    parts = []
    singles = [a for a, b in runs if a == b]
    if singles:
        parts.append('{' + ','.join(map(str, singles)) + '}')
    for a, b in runs:
        if a != b:
            parts.append('(%d..%d)' % (a, b))
    return '(' + ' \\cup '.join(parts) + ')' if len(parts) > 1 else parts[0]


class Ctx:
    def __init__(self, prog):
        self.prog = prog
        self.classes = []          # every symbol class used (for the symbol partition)
        self.nloop = 0
        self.loops = []            # stack of (name, id)
        self.decl = {o['name']: o for o in prog['outs']}

    # ---- regex terms (as TLA text)
    def cls(self, s):
        s = frozenset(s)
        self.classes.append(s)
        return '[k |-> "cls", s |-> %s]' % set_tla(s)

    def seq(self, parts):
        parts = [p for p in parts if p != EPS]
        if not parts:
            return EPS
        t = parts[-1]
        for p in reversed(parts[:-1]):
            t = '[k |-> "seq", a |-> %s, b |-> %s]' % (p, t)
        return t

    def alt(self, parts):
        t = parts[-1]
        for p in reversed(parts[:-1]):
            t = '[k |-> "alt", a |-> %s, b |-> %s]' % (p, t)
        return t

    def star(self, p):
        return '[k |-> "star", a |-> %s]' % p

    def opt(self, p):
        return self.alt([p, EPS])

    def regex(self, r):
        k = r['k']
        if k == 'ch':
            return self.cls([r['c']])
        if k == 'cc':
            return self.cls(CC[r['n']])
        if k == 'any':
            return self.cls(ALL)
        if k == 'set':
            s = set()
            for it in r['items']:
                if it[0] == 'ch':
                    s.add(it[1])
                elif it[0] == 'range':
                    s.update(range(it[1], it[2] + 1))
                else:
                    s.update(CC[it[1]])
            return self.cls(ALL - s if r['inv'] else s)
        if k == 'seq':
            return self.seq([self.regex(x) for x in r['c']])
        if k == 'alt':
            return self.alt([self.regex(x) for x in r['c']])
        if k == 'star':
            return self.star(self.regex(r['c']))
        if k == 'plus':
            p = self.regex(r['c'])
            return self.seq([p, self.star(p)])
        if k == 'opt':
            return self.opt(self.regex(r['c']))
        if k == 'rep':
            p = self.regex(r['c'])
            return self.seq([p] * r['n'])
        if k == 'range':
            p = self.regex(r['c'])
            return self.seq([p] * r['n'] + [self.opt(p)] * (r['m'] - r['n']))
        if k == 'atleast':
            p = self.regex(r['c'])
            return self.seq([p] * r['n'] + [self.star(p)])
        raise ValueError(k)

    def match(self, m):
        k = m['k']
        if k in ('str', 'bin'):
            return self.seq([self.cls([b]) for b in m['bytes']])
        if k == 'stri':
            out = []
            for b in m['bytes']:
                ch = chr(b)
                if ch in string.ascii_letters:
                    out.append(self.cls([ord(ch.lower()), ord(ch.upper())]))
                else:
                    out.append(self.cls([b]))
            return self.seq(out)
        if k == 'end':
            return self.cls([END])
        if k == 're':
            return self.regex(m['r'])
        if k == 'cat':
            return self.seq([self.match(x) for x in m['ms']])
        raise ValueError(k)

    # ---- expressions in the exporter's format
    def expr(self, e, enum_of=None):
        k = e['k']
        if k == 'num':
            return {'k': 'lit', 't': 'int', 'v': e['v']}
        if k == 'chr':
            return {'k': 'lit', 't': 'int', 'v': e['c']}
        if k == 'bool':
            return {'k': 'lit', 't': 'bool', 'v': 1 if e['v'] else 0}
        if k == 'enum':
            vals = self.decl[enum_of]['values'] if enum_of else None
            return {'k': 'lit', 't': 'enum', 'v': vals.index(e['name']) if vals else -1}
        if k == 'var':
            return {'k': 'var', 'name': e['name']}
        if k == 'len':
            return {'k': 'len', 'name': e['name']}
        if k == 'idx':
            return {'k': 'idx', 'name': e['name'], 'i': self.expr(e['i'])}
        if k == 'last':
            return {'k': 'last'}
        if k == 'not':
            return {'k': 'cmp', 'op': '==', 'l': self.expr(e['e']), 'r': {'k': 'lit', 't': 'bool', 'v': 0}}
        if k == 'neg':
            return {'k': 'sum', 'c': [{'k': 'lit', 't': 'int', 'v': 0}, self.expr(e['e'])], 'neg': [False, True]}
        if k == 'bin':
            op = e['op']
            if op in ('==', '!=', '<', '>', '<=', '>='):
                en = e['l']['name'] if e['l']['k'] == 'var' and self.decl.get(e['l']['name'], {}).get('type') == 'enum' else None
                return {'k': 'cmp', 'op': op, 'l': self.expr(e['l']), 'r': self.expr(e['r'], en)}
            l, r = self.expr(e['l'], enum_of), self.expr(e['r'], enum_of)
            if op in ('+', '-'):
                return {'k': 'sum', 'c': [l, r], 'neg': [False, op == '-']}
            if op in ('*', '/', '%'):
                return {'k': 'mul', 'c': [l, r], 'ops': ['*', op]}
            if op in ('<<', '>>'):
                return {'k': 'shift', 'l': l, 'r': r, 'left': op == '<<'}
            if op in ('&', '|', '^'):
                return {'k': 'bit', 'op': op, 'c': [l, r]}
            if op == '&&':
                return {'k': 'and', 'c': [l, r]}
            if op == '||':
                return {'k': 'or', 'c': [l, r]}
        raise ValueError(e)

    def cond(self, e):
        return tla(conv_cond({'k': 'expr', 'e': self.expr(e)}))

    # ---- actions in the machine's format (python dicts, exporter shape)
    def action(self, s):
        t = s['t']
        if t == 'hook':
            return {'op': 'hook', 'name': s['n']}
        if t == 'set':
            d = self.decl[s['var']]
            return {'op': 'set', 'var': s['var'], 'expr': self.expr(s['e'], s['var'] if d['type'] == 'enum' else None)}
        if t == 'setstr':
            return {'op': 'setstr', 'var': s['var'], 'bytes': list(s['bytes'])}
        if t == 'delete':
            return {'op': 'delete', 'var': s['var']}
        if t == 'appendc':
            return {'op': 'appendc', 'var': s['var'], 'expr': self.expr(s['e']), 'ovf': 0}
        if t == 'if':
            br = [{'cond': {'k': 'expr', 'e': self.expr(b['c'])}, 'acts': [self.action(x) for x in b['b']]} for b in s['br']]
            br.append({'cond': {'k': 'else'}, 'acts': [self.action(x) for x in (s.get('els') or [])]})
            return {'op': 'cond', 'branches': br}
        raise ValueError('not a data action: %r' % t)

    def pure(self, ss):
        for s in ss:
            if s['t'] in ('hook', 'set', 'setstr', 'delete', 'appendc', 'break', 'finish', 'yield'):
                continue
            if s['t'] == 'if' and all(self.pure(b['b']) for b in s['br']) and self.pure(s.get('els') or []):
                continue
            return False
        return True

    # ---- statements
    def stmts(self, ss):
        return '<<' + ','.join(self.stmt(s) for s in ss) + '>>'

    def stmt(self, s):
        t = s['t']
        if t == 'match':
            return '[t |-> "match", r |-> %s, app |-> ""]' % self.match(s['m'])
        if t == 'append':
            return '[t |-> "match", r |-> %s, app |-> %s]' % (self.match(s['m']), tla(s['var']))
        if t == 'wait':
            return '[t |-> "wait", r |-> %s]' % self.match(s['m'])
        if t in ('hook', 'set', 'setstr', 'delete', 'appendc'):
            return '[t |-> "act", a |-> %s]' % tla(conv_act(self.action(s)))
        if t == 'finish':
            return '[t |-> "finish", code |-> %s]' % tla(s['code'] or '')
        if t == 'yield':
            return '[t |-> "yield", code |-> %s]' % tla(s['code'])
        if t == 'break':
            if s.get('loop'):
                ids = [i for n, i in self.loops if n == s['loop']]
                lid = ids[-1] if ids else -1
            else:
                lid = self.loops[-1][1] if self.loops else -1
            return '[t |-> "break", id |-> %d]' % lid
        if t == 'loop':
            self.nloop += 1
            lid = self.nloop
            self.loops.append((s.get('name'), lid))
            b = self.stmts(s['b'])
            self.loops.pop()
            return '[t |-> "loop", id |-> %d, b |-> %s]' % (lid, b)
        if t == 'opt':
            return '[t |-> "opt", b |-> %s]' % self.stmts(s['b'])
        if t == 'try':
            h = s.get('handles')
            nm = h is None or 'nomatch' in h
            oos = h is None or 'outofspace' in h
            return '[t |-> "try", b |-> %s, nomatch |-> %s, oos |-> %s, h |-> %s]' % (self.stmts(s['b']), tla(nm), tla(oos), self.stmts(s['h']))
        if t == 'foreach':
            return '[t |-> "foreach", b |-> %s, acts |-> %s]' % (self.stmts(s['b']), tla([conv_act(self.action(a)) for a in s['acts']]))
        if t == 'if':
            pure = self.pure([s])
            br = ','.join('[cond |-> %s, b |-> %s]' % (self.cond(b['c']), self.stmts(b['b'])) for b in s['br'])
            return '[t |-> "if", pure |-> %s, br |-> <<%s>>, eb |-> %s]' % (tla(pure), br, self.stmts(s.get('els') or []))
        if t == 'case':
            cl = []
            hasels = False
            eb = '<<>>'
            for c in s['cl']:
                body = self.stmts(c['b'])
                for p in c['ps']:
                    if p == 'else':
                        hasels = True
                        eb = body
                    else:
                        cl.append('[r |-> %s, b |-> %s, prio |-> %d]' % (self.match(p), body, c.get('prio', 0) if s.get('greedy') else 0))
            return '[t |-> "case", greedy |-> %s, cl |-> <<%s>>, hasels |-> %s, eb |-> %s]' % (tla(bool(s.get('greedy'))), ','.join(cl), tla(hasels), eb)
        raise ValueError(t)


EPS = '[k |-> "eps"]'


def lang_program(prog):
    """returns (TLA text of the statement list, list of symbol classes used)"""
    c = Ctx(prog)
    body = c.stmts(prog['body'])
    return body, c.classes


def conform_symbols(m, classes, per_cell=1, with_end=False):
    """representatives of the partition of 0..255 refining the machine's transition sets, the byte constants of its
    expressions and every class of the source program"""
    import mc
    sigs = {}
    cells = mc.symbol_cells(m)
    cell_of = {}
    for i, cell in enumerate(cells):
        for b in cell:
            cell_of[b] = i
    for b in range(256):
        key = (cell_of[b],) + tuple(b in s for s in classes)
        sigs.setdefault(key, []).append(b)
    reps = set()
    for cell in sigs.values():
        reps.add(cell[0])
        if per_cell >= 2 and len(cell) > 1:
            reps.add(cell[-1])
    out = sorted(reps)
    if with_end:
        out.append(END)
    return out
