#!/bin/sh
# run the thorough tier of the given checks one after the other (exploration aid for `vp run`); usage: thorough_some.sh C18 C09 ...
cd "$(dirname "$0")/.." || exit 2
for p in "$@"; do
  t0=$(date +%s)
  harness/check $p --tier thorough > /tmp/thorough_$p.log 2>&1
  rc=$?
  echo "$p thorough rc=$rc wall=$(( $(date +%s) - t0 ))s violations=$(grep -c '^VIOLATION' /tmp/thorough_$p.log) known=$(grep -c '^KNOWN-FINDING' /tmp/thorough_$p.log) machinery=$(grep -c '^MACHINERY' /tmp/thorough_$p.log)"
  grep -A1 '^VIOLATION\|^MACHINERY' /tmp/thorough_$p.log | head -8 | cut -c1-400
done
