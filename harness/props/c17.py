"""C17 - end-of-input handling follows the EOF contract.

Conform.tla with END as a symbol on programs compiled with -feof-support: `end` in match, case and wait positions, in
catch handlers, followed by actions and finish codes.  After every explored input the machine's <parser>_end result
(DONE / finish code / FAIL, with the actions that follow an `end` pattern) is compared with the Lang's end-of-input step;
data classes never contain END and the `end` pattern never matches a byte (NmfuRegex).  The C <parser>_end of every
state is bound to the machine by the single-step sweeps of C06 (which include END)."""
import random
import runner
from common import Check
from gen import prog as genprog
from props import c01


def run(tier, seed):
    chk = Check('C17', tier, seed, 'model_checking')
    rng = random.Random(seed * 7919 + 17)
    quick = tier != 'thorough'
    items, asts = [], []
    for i in range(240 if quick else 600):
        s = rng.randrange(1 << 30)
        ast, src = genprog.gen_end_program(s)
        items.append(('end:%d' % s, src, [rng.choice(['-O0', '-O1', '-O2', '-O3']), '-feof-support']))
        asts.append(ast)
    g_items, g_asts = c01.gen_items(rng, 100 if quick else 250, c01.FEATURES | {'end'}, extra=())
    for (n, s, a), ast in zip(g_items, g_asts):
        if '-feof-support' in a:
            items.append((n, s, a))
            asts.append(ast)
    progs = runner.compile_programs(items, want=('machine', 'codegen'))
    pairs = [(p, a) for p, a in zip(progs, asts) if p.ok]
    c_only = [p for p, a in pairs if a.get('c_only')]
    pairs = [(p, a) for p, a in pairs if not a.get('c_only')]
    st, kinds, cases = c01.run_conform(chk, pairs, 8 if quick else 12, 1600 if quick else 9000, 'end')
    from props import c06
    cs = c06.c_stage(chk, [p for p, a in pairs][::3 if quick else 2] + c_only[::2 if quick else 1], rng, 2, 'EOF program')
    chk.coverage = {
        'states': st['states'] + cs['states'], 'transitions': st['transitions'] + cs['transitions'], 'traces_validated_against_impl': len(pairs) + cs['accepted'],
        'c_stage': cs,
        'samples': [{'source': c['p'].src, 'args': c['p'].args, 'symbols': c['syms']} for c in cases[:2]],
        'programs_accepted': len(pairs) + len(c_only), 'bound_at_the_C_level_only': len(c_only), 'programs_generated': len(items), 'report_kinds': dict(kinds), 'exhaustive': False,
        'rule': '`end` in match / case / wait positions, in handlers, followed by actions and finish codes; every input up to the length bound over the symbol cells, followed by end()',
    }
    chk.assumptions = ['OP1/OP4: after a trailing lookahead-terminated construct, and with strict-done, end() may report FAIL where the program has logically ended (counted as OP1 reports)']
    return chk.finish()


def replay(path):
    print(open(path).read()[:4000])
    return 0
