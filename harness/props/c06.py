"""C06 - the emitted C executes exactly the compiled state machine.

Decided by trace validation against NmfuMachine in both granularities:
  * StepTrace: from every state index x forced data contexts, every byte 0..255 as a one-byte feed and end();
  * ApiTrace : guided multi-byte walks (whole-chunk and byte-at-a-time)."""
import random, json, time, shutil
import runner, steps, cbuild
from common import Check
from props import ctrace

OPTSETS_QUICK = [['-O1'], ['-O2', '-findirect-start-ptr'], ['-O3', '-feof-support', '-fstrict-done-token-generation']]
OPTSETS_THOROUGH = OPTSETS_QUICK + [
    ['-O2', '--collapsed-range-length', '2', '-fstrings-as-u8'], ['-O0', '-feof-support', '-findirect-start-ptr'],
    ['-O2', '-fallocate-str-space-dynamic-on-demand', '-fdelete-string-free-memory', '-fhook-per-state'],
    ['-O3', '--collapsed-range-length', '1', '-fzero-len-input-support', '-fuse-packed-enums']]


def sweeps_for(chk, progs, rng, nctx_small, nctx_big, root, use_san=False, states_of=None, bytes_of=None):
    cases = []
    nsweeps = 0
    dropped_total = 0
    for p in progs:
        binary = p.bin_san if use_san else p.bin
        if not binary:
            continue
        nst = len(p.m['states'])
        k = nctx_small if nst <= 60 else nctx_big
        ctxs = steps.make_contexts(p.m, rng, k)
        script, plan = steps.sweep_script(p.m, ctxs, states_of(p) if states_of else None, bytes_of(p) if bytes_of else None)
        evs, rc, err = cbuild.run_driver(binary, script, timeout=120)
        sw, dropped, n = steps.conv_sweeps(evs, plan, p.m)
        dropped_total += dropped
        if rc is None:
            chk.violation('driver hang during single-step sweep of %s %s' % (p.name, p.args),
                          {'program': p.name, 'args': p.args, 'source': p.src, 'sweep_done': n, 'plan': plan[n:n + 1]})
        elif rc != 0 or n != len(plan):
            chk.violation('driver died (rc=%s) during single-step sweep of %s %s after %d of %d sweeps: %s' % (rc, p.name, p.args, n, len(plan), err[-300:]),
                          {'program': p.name, 'args': p.args, 'source': p.src, 'next_sweep': plan[n:n + 1]})
        for j in range(0, len(sw), 40):
            cases.append({'key': (p.pid, j), 'mtla': p.mtla(), 'S': sw[j:j + 40], 'p': p})
        nsweeps += len(sw)
    return cases, nsweeps, dropped_total


def run(tier, seed):
    chk = Check('C06', tier, seed, 'model_checking')
    rng = random.Random(seed * 7919 + 6)
    quick = tier != 'thorough'
    ngen = 24 if quick else 70
    items = ctrace.gather_programs(rng, ngen, corpus=('example', 'ok'), gen_kw=dict(maxdepth=2, maxstmts=3), base_args=())
    from gen import prog as genprog
    for i in range(6 if quick else 20):
        sd = rng.randrange(1 << 30)
        items.append(('cond:%d' % sd, genprog.gen_cond_program(sd)[1], []))
    for i in range(8 if quick else 24):
        sd = rng.randrange(1 << 30)
        items.append(('brk:%d' % sd, genprog.gen_break_program(sd)[1], []))
    for i in range(6 if quick else 40):
        sd = rng.randrange(1 << 30)
        items.append(('range:%d' % sd, genprog.gen_range_program(sd)[1], []))
    # corpus files that carry their own "// args:" keep them; every program is crossed with the option sets
    optsets = OPTSETS_QUICK if quick else OPTSETS_THOROUGH
    if quick:
        # quick tier: every program under one option set chosen round-robin, the first 10 under all of them
        it2 = []
        for i, (n, s, a) in enumerate(items):
            sets = optsets if i % 9 == 0 else [optsets[i % len(optsets)]]
            for k, o in enumerate(sets):
                it2.append(('%s|%s' % (n, ' '.join(o)), s, list(a) + o))
        items = it2
    else:
        items = [('%s|%s' % (n, ' '.join(o)), s, list(a) + o) for (n, s, a) in items for o in optsets]
    out = ctrace.run_pipeline(chk, items, rng, seed, nwalks=6 if quick else 10, maxlen=30, chunk_mode='some', chunk_limit=2 if quick else 4,
                              keep_records=True, cover=8 if quick else 14)
    try:
        progs = out['progs']
        cases, nsweeps, dropped = sweeps_for(chk, progs, rng, 3 if quick else 5, 2 if quick else 3, out['root'])
        res, st = runner.validate_sweeps(cases, workers=2, parallel=8)
        nacc = nrej = 0
        undef = 0
        sample = None
        for c, (v, reps) in zip(cases, res):
            for r in reps:
                if r.get('kind') == 'UNDEF':
                    undef += r.get('n', 0)
            if v == 'ACCEPT':
                nacc += 1
            elif v == 'REJECT':
                nrej += 1
                r = [x for x in reps if x['kind'] == 'REJECT'][0]
                p = c['p']
                chk.violation('single step differs (%s) in state %s on symbol %s (%d symbols differ) for %s %s'
                              % (r['clause'], r['q'], r['sym'], r['nbad'], p.name, p.args),
                              {'program': p.name, 'args': p.args, 'source': p.src, 'state': r['q'], 'symbol': r['sym'],
                               'context': r['pre'], 'spec': r['spec'], 'impl': r['impl']})
            else:
                chk.machinery_error('no verdict for sweeps of %s' % (c['key'],))
            if sample is None and c['S']:
                s0 = c['S'][0]
                sample = {'program': c['p'].name, 'args': c['p'].args, 'forced_state': s0['q'], 'distinct_outcomes': len(s0['outs']),
                          'outcome_index_per_symbol': s0['idx'][:40] + ['...']}
        for e in st['errors']:
            chk.machinery_error('TLC(StepTrace): ' + str(e)[:1500])
        nprog = len([p for p in progs if p.bin])
        chk.coverage = {
            'states': out['stats']['states'] + st['states'], 'transitions': out['stats']['transitions'] + st['transitions'],
            'traces_validated_against_impl': out['counts']['ACCEPT'] + nacc,
            **ctrace.cover_cov(out),
            'samples': ctrace.sample_cases(out, 2) + ([sample] if sample else []),
            'programs': nprog, 'programs_rejected_by_compiler': len([p for p in progs if not p.ok]),
            'single_step_sweeps': nsweeps, 'single_steps_compared': nsweeps * 257 - undef, 'single_steps_undefined': undef,
            'sweeps_dropped_wide_values': dropped,
            'walk_traces': dict(out['counts']), 'unbuildable_programs': len(out['unbuildable']),
            'option_sets': optsets, 'exhaustive': False,
            'rule': 'every state index of every program x %d forced data contexts x all 256 bytes + end(); plus guided multi-byte walks' % (3 if quick else 5),
        }
        chk.assumptions = ['gcc -O1 build of the emitted C on x86-64', 'driver zero-fills the state struct and malloc blocks',
                           'steps whose evaluation leaves the modelled integer range (wide/ub) are not compared']
    finally:
        shutil.rmtree(out['root'], ignore_errors=True)
    return chk.finish()


def replay(path):
    w = json.load(open(path))
    print(json.dumps(w, indent=1)[:4000])
    return 0


def c_stage(chk, progs, rng, nctx=2, label='program', prebuilt=False):
    """bind the emitted C of `progs` (Prog objects, compiled with 'machine') to their machines: rebuild with C output and sweep
    every state x every byte (+ end) from `nctx` data contexts.  Returns dict(states, transitions, sweeps, accepted)."""
    import shutil
    # prebuilt: the Prog objects already carry the emitted C of the compilation under test (C20: a compilation with a history)
    built = list(progs) if prebuilt else runner.compile_programs([(p.name, p.src, p.args) for p in progs])
    root = runner.scratch_dir()
    out = {'states': 0, 'transitions': 0, 'sweeps': 0, 'accepted': 0, 'binaries': 0}
    try:
        runner.build_programs(built, root)
        for p in built:
            if p.ok and not p.bin:
                chk.violation('emitted C does not build for %s %s: %s' % (p.name, p.args, p.buildlog[-300:]),
                              {'program': p.name, 'args': p.args, 'source': p.src, 'log': p.buildlog[-2000:]})
        out['binaries'] = len([p for p in built if p.bin])
        swcases, nsweeps, dropped = sweeps_for(chk, built, rng, nctx, max(1, nctx - 1), root)
        swres, swst = runner.validate_sweeps(swcases, workers=2, parallel=8)
        for c, (v, reps) in zip(swcases, swres):
            if v == 'ACCEPT':
                out['accepted'] += 1
            elif v == 'REJECT':
                r = [x for x in reps if x['kind'] == 'REJECT'][0]
                chk.violation('emitted C of the %s differs from the compiled machine (%s) in state %s on symbol %s for %s %s'
                              % (label, r['clause'], r['q'], r['sym'], c['p'].name, c['p'].args),
                              {'program': c['p'].name, 'source': c['p'].src, 'args': c['p'].args, 'state': r['q'], 'symbol': r['sym'],
                               'context': r['pre'], 'spec': r['spec'], 'impl': r['impl']})
            else:
                chk.machinery_error('no verdict for sweeps of %s' % (c['key'],))
        for e in swst['errors']:
            chk.machinery_error('TLC(StepTrace): ' + str(e)[:1500])
        out.update(states=swst['states'], transitions=swst['transitions'], sweeps=nsweeps)
        # multi-byte chunks: single-step sweeps re-enter the dispatcher for every byte and cannot see a wrong jump *inside* a
        # chunk, so the specification-guided inputs (Cover.tla) are also fed as one chunk and validated call by call
        import mc
        okb = [p for p in built if p.ok and p.bin]
        cov, cst = mc.cover_inputs(okb, k=6, rng=random.Random(rng.randrange(1 << 30)))
        for e in cst['errors']:
            chk.machinery_error('TLC(Cover): ' + str(e)[:1500])
        recs = ctrace.record_all(okb, {p.src: cov.get(p.pid, []) for p in okb}, rng, 'whole', 1)
        good = [r for r in recs if r['rec']['status'] == 'ok']
        for r in recs:
            if r['rec']['status'] != 'ok':
                chk.violation('driver %s while feeding %r as one chunk to the %s %s %s' % (r['rec']['status'], r['data'], label, r['prog'].name, r['prog'].args),
                              ctrace.witness_of(r))
        cases, skipped = ctrace.to_cases(good)
        verd, vst = runner.validate_traces(cases, shards=8, workers=2)
        for e in vst['errors']:
            chk.machinery_error('TLC(ApiTrace): ' + str(e)[:1500])
        nacc = 0
        for c in cases:
            v, rep = verd[c['key']]
            if v == 'ACCEPT':
                nacc += 1
            elif v == 'REJECT':
                chk.violation('emitted C of the %s differs from the compiled machine when %r is fed as one chunk: clauses %s at event %s of %s %s'
                              % (label, c['rec']['data'], json.dumps(rep.get('clauses')), rep.get('ei'), c['rec']['prog'].name, c['rec']['prog'].args),
                              ctrace.witness_of(c['rec'], rep))
        out['states'] += cst['states'] + vst['states']
        out['transitions'] += cst['transitions'] + vst['transitions']
        out['accepted'] += nacc
        out['whole_chunk_traces'] = nacc
    finally:
        shutil.rmtree(root, ignore_errors=True)
    return out
