"""C10 - result codes and the start pointer follow the documented protocol.

(1) MachineMC: TLC explores every exported machine under the API protocol (all symbol cells, bounded length, calls
    after FAIL, end at any point) and reports OK-without-consuming and FAIL-not-absorbing steps; each report is
    replayed on the real binary before it counts.
(2) ApiTrace: recorded call histories of the binaries (all chunkings of short inputs, re-invocation after yields,
    calls after terminal results, end) are validated clause by clause: code, pointer advance, state, outputs, hooks."""
import random, json, shutil
import runner, mc
from common import Check
from props import ctrace
from gen import prog as genprog

FEATURES = {'str', 'int', 'hook', 'loop', 'case', 'greedy', 'opt', 'try', 'if', 'wait', 'finish', 'yield', 'regex', 'condact', 'end', 'idiom', 'appendc'}


def classify_mc(rep):
    if rep['kind'] == 'FAILNOTABS':
        # which call produced the first FAIL?  (END = 256)
        return 'end-fail-not-absorbing' if rep.get('first_fail_sym') == 256 else None
    return None


def greedy_stall(p, r):
    """class of the known finding greedy-finished-clause-in-loop-stalls: the stalling state is an ordinary, non-accepting state of a
    program with a greedy case inside a loop that has only explicit byte moves (no Else / End fallback at all)"""
    import re
    stq = p.m['states'][r['q']] if 0 <= r.get('q', -1) < len(p.m['states']) else None
    return bool(stq and stq['kind'] == 'normal' and not stq['acc'] and stq['trans'] and all(t['on'] and not t['els'] and not t['end'] for t in stq['trans'])
                and re.search(r'loop\s*\w*\s*\{', p.src) and 'greedy case' in p.src)


def pinned(chk):
    """re-run the pinned witness of every known finding of this property"""
    import os
    for k in chk.known:
        w = k.get('witness', {})
        if w.get('kind') in ('FAILNOTABS', 'STALL'):
            from common import ROOT
            path = os.path.join(ROOT, w['program']) if w['program'].startswith('corpus/') else os.path.join(runner.REPO, w['program'])
            src = open(path).read()
            progs = runner.compile_programs([(w['program'], src, w['args'])])
            root = runner.scratch_dir()
            try:
                runner.build_programs(progs, root)
                if progs[0].bin:
                    ok, detail = mc.confirm(progs[0], {'kind': w['kind'], 'hist': w['history']})
                    if ok:
                        chk.known_hits.append((k['id'], 'pinned witness %s %s history %s: %s' % (w['program'], w['args'], w['history'], w.get('observed'))))
            finally:
                shutil.rmtree(root, ignore_errors=True)


def run(tier, seed):
    chk = Check('C10', tier, seed, 'model_checking')
    rng = random.Random(seed * 7919 + 10)
    quick = tier != 'thorough'
    ngen = 30 if quick else 90
    items = []
    for name, src, args in runner.corpus_programs(('example', 'ok')):
        a = list(args)
        items.append((name, src, a + ['-findirect-start-ptr']))
    for i in range(ngen):
        s = rng.randrange(1 << 30)
        p, src = genprog.generate(s, FEATURES, maxdepth=2, maxstmts=3)
        extra = rng.choice([[], ['-fstrict-done-token-generation'], ['-fzero-len-input-support'], ['-O3'], ['-O3', '-fstrict-done-token-generation']])
        items.append(('gen:%d' % s, src, ['-fyield-support', '-feof-support'] + extra))
    # result-code protocol family: runs of yields / yield-then-finish, at every level (-O3 merges them onto consuming transitions)
    proto = []
    for i in range(16 if quick else 60):
        s = rng.randrange(1 << 30)
        ast, src = genprog.gen_protocol_program(s)
        lvl = ['-O3', '-O1', '-O2', '-O0'][i % 4]
        items.append(('proto:%d' % s, src, [lvl, '-fyield-support']))
        proto.append((('proto:%d' % s, src, [lvl, '-fyield-support']), ast))
    # end-of-input family: `end` patterns followed by actions and finish codes, handlers that finish - the codes _end must return
    nfin = 0
    for i in range(12 if quick else 50):
        s = rng.randrange(1 << 30)
        esrc = genprog.gen_end_program(s)[1]
        while i % 2 and 'finish' not in esrc:          # every other one reaches a finish statement at the end of input
            s = rng.randrange(1 << 30)
            esrc = genprog.gen_end_program(s)[1]
        nfin += 'finish' in esrc
        items.append(('end:%d' % s, esrc, ['-feof-support', '-findirect-start-ptr'] + rng.choice([[], ['-O3'], ['-fstrict-done-token-generation']])))
    pinned(chk)
    # ... and the same programs against the procedural reading: DONE / finish codes exactly when the program finishes,
    # every yield code reported exactly once and in order
    from props import c01
    pprogs = runner.compile_programs([it for it, _ in proto], want=('machine', 'codegen'))
    ppairs = [(p, a) for p, (_, a) in zip(pprogs, proto) if p.ok]
    cst, ckinds, ccases = c01.run_conform(chk, ppairs, 8 if quick else 11, 1600 if quick else 9000, 'protocol')
    out = ctrace.run_pipeline(chk, items, rng, seed, nwalks=5 if quick else 12, maxlen=9, chunk_mode='all', chunk_limit=12 if quick else 64,
                              post_terminal=2, keep_records=True, cover=8 if quick else 20)
    try:
        progs = [p for p in out['progs'] if p.bin]
        reports, st, cases = mc.explore(progs, None, post=2, budget=8000 if quick else 200000, timeout=1600 if quick else 9000)
        for e in st['errors']:
            chk.machinery_error('TLC(MachineMC): ' + str(e)[:1500])
        kinds = {}
        confirmed = 0
        unconfirmed = 0
        for p, reps in zip(progs, reports):
            seen = set()
            for r in reps:
                if r['kind'] not in ('STALL', 'FAILNOTABS'):
                    continue
                kinds[r['kind']] = kinds.get(r['kind'], 0) + 1
                if (r['kind']) in seen:
                    continue          # one confirmed witness per program and kind
                ok, detail = mc.confirm(p, r)
                if ok:
                    seen.add(r['kind'])
                    confirmed += 1
                    fid = None
                    if r['kind'] == 'FAILNOTABS':
                        # first FAIL of the replay: was it returned by <parser>_end ?
                        first = next((c for c, rcs in detail['calls'][1:] if 'FAIL' in rcs), None)
                        fid = 'end-fail-not-absorbing' if first == 256 else None
                    elif r['kind'] == 'STALL':
                        # the stalling state is an ordinary state carrying conditional transitions (no symbols): the known class
                        stq = p.m['states'][r['q']] if 0 <= r.get('q', -1) < len(p.m['states']) else None
                        if stq and stq['kind'] == 'normal' and stq['trans'] and all(not t['on'] and not t['els'] and not t['end'] for t in stq['trans']):
                            fid = 'cond-point-at-end-stalls'
                        elif greedy_stall(p, r):
                            fid = 'greedy-finished-clause-in-loop-stalls'
                    chk.violation('%s: %s %s history %s -> calls %s' % (r['kind'], p.name, p.args, r['hist'], detail['calls'][-4:]),
                                  {'program': p.name, 'args': p.args, 'source': p.src, 'history': r['hist'], 'kind': r['kind'], 'calls': detail['calls']}, fid)
                elif ok is False:
                    unconfirmed += 1
                    chk.machinery_error('MachineMC reported %s for %s %s on %s but the binary does not show it: %s'
                                        % (r['kind'], p.name, p.args, r['hist'], json.dumps(detail)[:600]))
        # bounded-exhaustive family (yield + EOF support, indirect pointer): STALL / FAILNOTABS on the machines, confirmed on lazily built binaries
        from props import enumfam
        e_items, e_asts, e_info = enumfam.slice_(tier, seed, scale=2)
        e_items = [(n, s, [a for a in args if a.startswith('-O')] + ['-fyield-support', '-feof-support']) for n, s, args in e_items]
        e_items = [(n, s if 'yieldcode' in s else s.replace('parser {', 'yieldcode Y0;\nparser {', 1), a) for n, s, a in e_items]
        e_progs = runner.compile_programs(e_items, want=('machine', 'codegen'))
        e_ok = [p for p in e_progs if p.ok]

        def e_classify(q, r, detail):
            if r['kind'] == 'FAILNOTABS':
                first = next((c for c, rcs in detail['calls'][1:] if 'FAIL' in rcs), None)
                return 'end-fail-not-absorbing' if first == 256 else None
            stq = q.m['states'][r['q']] if 0 <= r.get('q', -1) < len(q.m['states']) else None
            if stq and stq['kind'] == 'normal' and stq['trans'] and all(not t['on'] and not t['els'] and not t['end'] for t in stq['trans']):
                return 'cond-point-at-end-stalls'
            if greedy_stall(q, r):
                return 'greedy-finished-clause-in-loop-stalls'
            return None
        est, ecount, econf = enumfam.machine_reports(chk, e_ok, ('STALL', 'FAILNOTABS'), e_classify, budget=3000 if quick else 20000,
                                                     timeout=1600 if quick else 9000, post=2)
        for k, v in ecount.items():
            kinds[k] = kinds.get(k, 0) + v
        confirmed += econf
        st['states'] += est['states']
        st['transitions'] += est['transitions']
        chk.coverage = {
            'enumerated_family': enumfam.describe(e_info, len(e_ok)),
            'states': out['stats']['states'] + st['states'], 'transitions': out['stats']['transitions'] + st['transitions'],
            'traces_validated_against_impl': out['counts']['ACCEPT'] + confirmed,
            **ctrace.cover_cov(out),
            'protocol_programs_against_source_semantics': len(ppairs), 'conform_states': cst['states'],
            'samples': ctrace.sample_cases(out, 3),
            'programs': len(progs), 'call_history_traces': dict(out['counts']), 'machine_reports': kinds,
            'machine_reports_confirmed_on_binary': confirmed,
            'mc_depth_per_program': sorted(set(c['maxlen'] for c in cases)), 'exhaustive': False,
            'rule': 'MachineMC over symbol cells to a per-program length bound; call histories = guided inputs x chunkings (all compositions '
                    'for short inputs) + 2 calls after a terminal result + end()',
        }
        chk.assumptions = ['the caller re-invokes feed after a yield with the pointer left as reported (documented usage)',
                           'behaviour of calls after DONE is not constrained by the property']
    finally:
        shutil.rmtree(out['root'], ignore_errors=True)
    return chk.finish()


def replay(path):
    print(open(path).read()[:4000])
    return 0
