"""C04 - feed and end always return: no input makes a generated parser spin.

(1) MachineMC: TLC explores every exported machine over all symbol cells and end-of-input, with the data store part of
    the state; a symbol whose dispatch revisits non-consuming moves beyond the fuel bound (fall-through, condition
    branches, out-of-space redirects, breaks) is reported as SPIN, more than eight yields without consuming as YIELDLOCK.
    Every report is confirmed by running the witness on the binary under a wall-clock limit.
(2) Conform's reject side: a program whose procedural reading can go round without consuming input (ZEROPROGRESS in
    NmfuLang) must have been rejected by the compiler.
(3) Every C run of this check is under a wall-clock guard (guided walks of all programs)."""
import random, json, shutil, collections
import runner, mc, conform
from common import Check
from gen import prog as genprog
from props import ctrace, c01

FEATURES = {'str', 'int', 'bool', 'hook', 'loop', 'case', 'greedy', 'opt', 'try', 'foreach', 'if', 'wait', 'finish', 'yield', 'regex',
            'appendc', 'setstr', 'delete', 'condact', 'idiom', 'end'}


def ovf_reenters(m):
    """known-finding class oos-handler-reenters: an append whose out-of-space target falls through (without consuming
    and without deleting that string) back into the state the append leaves from"""
    def appends(acts):
        for a in acts:
            if a['op'] in ('append', 'appendc'):
                yield a
            elif a['op'] == 'cond':
                for b in a['branches']:
                    yield from appends(b['acts'])
            elif a['op'] == 'break':
                yield from appends(a['sub'])

    def deletes(acts, var):
        for a in acts:
            if a['op'] in ('delete', 'setstr') and a['var'] == var:
                return True
            if a['op'] == 'cond' and any(deletes(b['acts'], var) for b in a['branches']):
                return True
        return False
    for qi, st in enumerate(m['states']):
        for t in st['trans']:
            for a in appends(t['acts']):
                # follow fall-through moves from the overflow target
                seen = set()
                stack = [a['ovf']]
                while stack:
                    s = stack.pop()
                    if s in seen or s < 0:
                        continue
                    seen.add(s)
                    if s == qi:
                        return True
                    for t2 in m['states'][s]['trans']:
                        if t2['fall'] and not deletes(t2['acts'], a['var']):
                            stack.append(t2['tgt'])
    return False


def brk_reenters(m):
    """known-finding class cond-break-reenters-loop: a (conditional) break carried by a fall-through transition whose target falls
    through - possibly via further breaks - back into the state the transition leaves from"""
    def breaks(acts):
        for a in acts:
            if a['op'] == 'break':
                yield a
            elif a['op'] == 'cond':
                for b in a['branches']:
                    yield from breaks(b['acts'])
    for qi, st in enumerate(m['states']):
        for t in st['trans']:
            if not t['fall']:
                continue
            for a in breaks(t['acts']):
                seen, stack = set(), [a['to']]
                while stack:
                    s = stack.pop()
                    if s in seen or s < 0 or s >= len(m['states']):
                        continue
                    seen.add(s)
                    for t2 in m['states'][s]['trans']:
                        if t2['fall']:
                            if t2['tgt'] == qi or any(b['to'] == qi for b in breaks(t2['acts'])):
                                return True
                            stack.append(t2['tgt'])
                            stack.extend(b['to'] for b in breaks(t2['acts']))
    return False


def known_spin(m):
    return 'oos-handler-reenters' if ovf_reenters(m) else ('cond-break-reenters-loop' if brk_reenters(m) else None)


def pinned(chk):
    import os
    for k in chk.known:
        w = k.get('witness', {})
        if w.get('kind') != 'hang':
            continue
        path = os.path.normpath(os.path.join(os.path.dirname(os.path.abspath(__file__)), '..', '..', w['program']))
        progs = runner.compile_programs([(w['program'], open(path).read(), w['args'])])
        root = runner.scratch_dir()
        try:
            runner.build_programs(progs, root)
            if progs[0].bin:
                steps, status = mc.replay_hist(progs[0], list(bytes.fromhex(w['input_hex'])), timeout=3.0)
                if status == 'hang':
                    chk.known_hits.append((k['id'], 'pinned witness %s never returns from _feed on input %r' % (w['program'], bytes.fromhex(w['input_hex']))))
        finally:
            shutil.rmtree(root, ignore_errors=True)


def run(tier, seed):
    chk = Check('C04', tier, seed, 'model_checking')
    rng = random.Random(seed * 7919 + 4)
    quick = tier != 'thorough'
    pinned(chk)
    items, asts = c01.gen_items(rng, 100 if quick else 300, FEATURES)
    # loops that may be able to go round without consuming: the compiler must reject those that can
    for i in range(120 if quick else 360):
        sd = rng.randrange(1 << 30)
        ast, src, uy = genprog.gen_zp_program(sd)
        items.append(('zp:%d' % sd, src, [rng.choice(['-O0', '-O1', '-O3'])] + (['-fyield-support'] if uy else [])))
        asts.append(ast)
    corpus = [(n, s, a) for n, s, a in runner.corpus_programs(('example', 'ok'))]
    allitems = items + corpus
    progs = runner.compile_programs(allitems)
    ok = [p for p in progs if p.ok]
    root = runner.scratch_dir()
    try:
        runner.build_programs(ok, root)
        reports, st, cases = mc.explore(ok, None, post=1, budget=20000 if quick else 400000, timeout=1600 if quick else 9000)
        for e in st['errors']:
            chk.machinery_error('TLC(MachineMC): ' + str(e)[:1500])
        kinds = collections.Counter()
        confirmed = 0
        for p, reps in zip(ok, reports):
            done = set()
            for r in reps:
                if r['kind'] not in ('SPIN', 'YIELDLOCK'):
                    continue
                kinds[r['kind']] += 1
                if r['kind'] in done or not p.bin:
                    continue
                okc, detail = mc.confirm(p, r)
                if okc:
                    done.add(r['kind'])
                    confirmed += 1
                    fid = known_spin(p.m) if r['kind'] == 'SPIN' else None
                    chk.violation('%s: %s %s never returns / yields for ever on input history %s' % (r['kind'], p.name, p.args, r['hist']),
                                  {'program': p.name, 'args': p.args, 'source': p.src, 'history': r['hist'], 'kind': r['kind'], 'binary': detail}, fid)
                elif okc is False:
                    chk.machinery_error('MachineMC reported %s for %s %s on %s but the binary returns: %s' % (r['kind'], p.name, p.args, r['hist'], json.dumps(detail)[:400]))
        # wall-clock guarded walks of every binary
        hangs = 0
        nwalk = 0
        for p in ok:
            if not p.bin:
                continue
            cr = []
            ins = runner.walk_inputs(p, 4 if quick else 12, 24, rng, crashes=cr)
            nwalk += len(ins)
            for data, rc in cr:
                hangs += 1
                fid = known_spin(p.m)
                chk.violation('binary hung or died (rc=%s) during a byte-by-byte walk of %s %s on input %r' % (rc, p.name, p.args, data),
                              {'program': p.name, 'args': p.args, 'source': p.src, 'input_hex': data.hex()}, fid)
        # every state x every byte and end() of wait / end programs under the result-protocol options (strict done, EOF, yield): a call
        # that does not return is a driver hang, reported by the sweep
        from props import c06
        rows = (['-feof-support', '-fstrict-done-token-generation'], ['-feof-support', '-fstrict-done-token-generation', '-O3'],
                ['-feof-support', '-fyield-support', '-fstrict-done-token-generation'], ['-feof-support', '-O0'])
        witems = []
        for i in range(8 if quick else 40):
            sd = rng.randrange(1 << 30)
            wsrc = (genprog.gen_wait_program(sd) if i % 4 != 3 else genprog.gen_end_program(sd))[1]
            witems.append(('ret:%d' % sd, wsrc, rows[i % len(rows)]))
        wprogs = [p for p in runner.compile_programs(witems, want=('machine', 'codegen')) if p.ok]
        wcs = c06.c_stage(chk, wprogs, rng, 1, 'return-guard program') if wprogs else {'states': 0, 'transitions': 0, 'sweeps': 0, 'accepted': 0, 'binaries': 0}
        # reject side
        pairs = [(p, a) for p, a in zip(progs[:len(items)], asts) if p.ok]
        creports, cst, ccases = conform.explore(pairs, maxlen=8 if quick else 12, timeout=1500 if quick else 9000)
        zp = 0
        for (p, a), reps in zip(pairs, creports):
            z = [r for r in reps if r['kind'] == 'ZEROPROGRESS']
            if z:
                zp += 1
                fid = known_spin(p.m)
                chk.violation('accepted program whose procedural reading goes round without consuming input: %s %s after %s' % (p.name, p.args, z[0]['hist']),
                              {'program': p.name, 'args': p.args, 'source': p.src, 'history': z[0]['hist']}, fid)
        # bounded-exhaustive family: machines explored without building binaries (built lazily to confirm a report); reject side on all accepted
        from props import enumfam
        e_items, e_asts, e_info = enumfam.slice_(tier, seed)
        e_progs = runner.compile_programs(e_items, want=('machine', 'codegen'))
        e_ok = [p for p in e_progs if p.ok]
        est, ecount, econf = enumfam.machine_reports(chk, e_ok, ('SPIN', 'YIELDLOCK'),
                                                     lambda q, r, d: known_spin(q.m) if r['kind'] == 'SPIN' else None,
                                                     budget=4000 if quick else 20000, timeout=1600 if quick else 9000)
        e_pairs = [(p, a) for p, a in zip(e_progs, e_asts) if p.ok]
        ecreports, ecst, _ = conform.explore(e_pairs, maxlen=6 if quick else 8, timeout=1500 if quick else 9000)
        for e in ecst['errors']:
            chk.machinery_error('TLC(Conform enumerated): ' + str(e)[:1500])
        for (p, a), reps in zip(e_pairs, ecreports):
            z = [r for r in reps if r['kind'] == 'ZEROPROGRESS']
            if z:
                zp += 1
                chk.violation('accepted program whose procedural reading goes round without consuming input: %s %s after %s' % (p.name, p.args, z[0]['hist']),
                              {'program': p.name, 'args': p.args, 'source': p.src, 'history': z[0]['hist']}, known_spin(p.m))
        kinds.update(ecount)
        confirmed += econf
        st['states'] += est['states'] + ecst['states']
        st['transitions'] += est['transitions'] + ecst['transitions']
        chk.coverage = {
            'enumerated_family': enumfam.describe(e_info, len(e_ok)), 'return_guard_sweeps': wcs,
            'states': st['states'] + cst['states'] + wcs['states'], 'transitions': st['transitions'] + cst['transitions'],
            'traces_validated_against_impl': confirmed + nwalk,
            'samples': [{'program': c['p'].name, 'args': c['p'].args, 'symbols': c['syms'], 'max_input_length': c['maxlen']} for c in cases[:3]],
            'programs': len(ok), 'machine_reports': dict(kinds), 'confirmed_on_binary': confirmed, 'guarded_walks': nwalk, 'hangs_in_walks': hangs,
            'zero_progress_programs': zp, 'known_class_programs': sum(1 for p in ok if ovf_reenters(p.m)), 'exhaustive': False,
            'rule': 'MachineMC over all symbol cells + end to a per-program length bound with the data store in the state; fuel %d non-consuming moves per symbol' % 64,
        }
    finally:
        shutil.rmtree(root, ignore_errors=True)
    return chk.finish()


def replay(path):
    print(open(path).read()[:4000])
    return 0
