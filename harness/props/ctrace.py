"""Shared pipeline of the C-trace checks (C02 C03 C06 C10 C12 ...):
   programs x option sets -> real compiler -> exported machine + C binary -> guided inputs ->
   recorded NDJSON traces under chosen chunkings -> TLC trace validation against NmfuMachine."""
import os, sys, random, json, shutil, time
from concurrent.futures import ThreadPoolExecutor

import runner, trace
from gen import prog as genprog


def gather_programs(rng, n_generated, features=None, corpus=('example', 'ok'), gen_kw=None, base_args=('-O1',)):
    items = []
    for name, src, args in runner.corpus_programs(corpus):
        items.append((name, src, list(args) if args else list(base_args)))
    gen_kw = gen_kw or {}
    for i in range(n_generated):
        s = rng.randrange(1 << 30)
        p, src = genprog.generate(s, features, **gen_kw)
        items.append(('gen:%d' % s, src, list(base_args)))
    return items


def with_options(items, optsets):
    """cross every program with every option set (lists of extra args)"""
    out = []
    for name, src, args in items:
        for k, extra in enumerate(optsets):
            out.append(('%s|%d' % (name, k), src, list(args) + list(extra)))
    return out


def chunkings_for(n, rng, mode, limit):
    if n == 0:
        return [[]]
    if mode == 'whole':
        return [[n]]
    if mode == 'all' and n <= 10:
        return runner.compositions(n, rng, limit)
    cs = [[n], [1] * n]
    for cut in range(1, n):          # every single cut point
        cs.append([cut, n - cut])
    for _ in range(6):
        parts = []
        left = n
        while left:
            k = rng.randint(1, min(left, 4))
            parts.append(k)
            left -= k
        cs.append(parts)
    uniq = []
    for c in cs:
        if c not in uniq:
            uniq.append(c)
    if limit and len(uniq) > limit:
        keep = uniq[:2] + rng.sample(uniq[2:], limit - 2)
        uniq = keep
    return uniq


def record_all(progs, inputs_by_src, rng, chunk_mode, chunk_limit, sanitize=False, post_terminal=0, nthreads=12, seed=0):
    """returns list of dict(key, prog, data, parts, rec)"""
    jobs = []
    for p in progs:
        if not p.ok or not (p.bin_san if sanitize else p.bin):
            continue
        jobs.append(p)

    def one(p):
        r = random.Random(seed * 1000003 + p.pid)
        rec = runner.Recorder(p, p.bin_san if sanitize else p.bin)
        out = []
        try:
            for data in inputs_by_src.get(p.src, []):
                for parts in chunkings_for(len(data), r, chunk_mode, chunk_limit):
                    res = rec.run(data, parts, post_terminal=post_terminal)
                    if res['status'] != 'ok':
                        res['stderr'] = rec.stderr_tail
                    out.append({'key': (p.pid, data.hex(), tuple(parts)), 'prog': p, 'data': data, 'parts': parts, 'rec': res})
        finally:
            rec.close()
            # sanitizer verdict at process exit (LeakSanitizer): non-zero exit of a run that answered every command
            try:
                rc = rec.proc.returncode
                if sanitize and rc not in (0, None) and out and all(o['rec']['status'] == 'ok' for o in out):
                    err = ''
                    try:
                        err = rec.proc.stderr.read()[-1500:]
                    except Exception:
                        pass
                    out[-1]['rec'] = dict(out[-1]['rec'], status='died', stderr='exit code %s at process end: %s' % (rc, err))
            except Exception:
                pass
        return out

    with ThreadPoolExecutor(nthreads) as ex:
        chunks = list(ex.map(one, jobs))
    return [x for c in chunks for x in c]


def to_cases(records):
    cases = []
    skipped = []
    for r in records:
        p = r['prog']
        T, trunc = trace.conv_trace(r['rec']['script'], r['rec']['events'], p.m)
        if trunc and not T:
            skipped.append((r, trunc))
            continue
        cases.append({'key': r['key'], 'mtla': p.mtla(), 'T': T, 'rec': r, 'trunc': trunc})
    return cases, skipped


def summarize_outcome(rec, names):
    """observable outcome of a run independent of chunking: hook sequence with snapshots, terminal code + consumed
    offset, yields with absolute offsets, final outputs"""
    hooks = []
    off = 0
    codes = []
    final = None
    for cmd, e in zip([c for c in rec['script'] if c[0] in 'SFEX'], rec['events']):
        if e.get('ev') in ('start', 'feed', 'end'):
            for h in e['hooks']:
                hooks.append((h['n'], json.dumps(h['out'], sort_keys=True)))
            rc = names[e['rc']] if e['rc'] < len(names) else '?'
            if e['ev'] == 'feed':
                n = 0 if cmd.strip() == 'F -' else len(cmd[2:].strip()) // 2
                if rc == 'OK':
                    off += n
                elif e['adv'] >= 0:
                    codes.append((rc, off + e['adv']))
                    off += e['adv']
                else:
                    codes.append((rc, None))
            elif rc != 'OK':
                codes.append((e['ev'] + ':' + rc, None))
            final = json.dumps(e['out'], sort_keys=True)
    return {'hooks': hooks, 'codes': codes, 'final': final}


# ---------------------------------------------------------------------------
def witness_of(r, rep=None):
    p = r['prog']
    w = {'program': p.name, 'args': p.args, 'source': p.src, 'input_hex': r['data'].hex(), 'input': repr(r['data']),
         'chunks': list(r['parts'])}
    if rep:
        w['report'] = {k: rep.get(k) for k in ('ei', 'ev', 'clauses', 'spec', 'impl', 'why', 'detail') if k in rep}
    return w


def run_pipeline(chk, items, rng, seed, nwalks=8, maxlen=24, chunk_mode='some', chunk_limit=4, sanitize=False,
                 post_terminal=0, extra_inputs=None, share_inputs_by='src', classify=None, tlc_parallel=4,
                 keep_records=False, cover=0, cover_budget=200000):
    """items: (name, src, args).  Files violations on chk; returns dict with progs, records, cases, verdicts, stats."""
    t0 = time.time()
    progs = runner.compile_programs(items)
    accepted = [p for p in progs if p.ok]
    root = runner.scratch_dir()
    out = {'progs': progs, 'root': root}
    try:
        runner.build_programs(progs, root, sanitize=sanitize, also_plain=True)
        unbuildable = [p for p in accepted if not p.bin]
        # inputs: one set per distinct source (so that option sets of one program see the same inputs)
        inputs = {}
        crashes = []
        cov = {}
        out['cover_stats'] = {'items': 0, 'states': 0, 'transitions': 0, 'inputs': 0}
        if cover:
            # specification-guided inputs: TLC (Cover.tla) finds the shortest input reaching every distinguishable step
            import mc
            firsts, seen_src = [], set()
            for p in accepted:
                if p.bin and p.src not in seen_src:
                    seen_src.add(p.src)
                    firsts.append(p)
            cov, cst = mc.cover_inputs(firsts, k=cover, budget=cover_budget, rng=random.Random(seed * 31 + 7))
            for e in cst['errors']:
                chk.machinery_error('TLC(Cover): ' + str(e)[:1500])
            out['cover_stats'] = {'items': cst['items'], 'states': cst['states'], 'transitions': cst['transitions'],
                                  'inputs': sum(len(v) for v in cov.values())}
        for p in accepted:
            if not p.bin or p.src in inputs:
                continue
            cr = []
            ins = runner.walk_inputs(p, nwalks, maxlen, rng, crashes=cr)
            if extra_inputs:
                ins = ins + list(extra_inputs(p))
            ins = ins + cov.get(p.pid, [])
            # dedupe, keep order
            seen = set()
            inputs[p.src] = [x for x in ins if not (x in seen or seen.add(x))]
            for data, rc in cr:
                crashes.append((p, data, rc))
        recs = record_all(progs, inputs, rng, chunk_mode, chunk_limit, sanitize=sanitize, post_terminal=post_terminal, seed=seed)
        good = [r for r in recs if r['rec']['status'] == 'ok']
        bad = [r for r in recs if r['rec']['status'] != 'ok']
        cases, skipped = to_cases(good)
        verd, stats = runner.validate_traces(cases, shards=max(8, tlc_parallel), workers=2)
        stats['states'] += out['cover_stats']['states']
        stats['transitions'] += out['cover_stats']['transitions']
        out.update(records=recs if keep_records else None, cases=cases, verdicts=verd, stats=stats, inputs=inputs,
                   unbuildable=unbuildable, bad=bad, crashes=crashes)
        counts = {'ACCEPT': 0, 'REJECT': 0, 'SKIP': 0, 'NONE': 0}
        for c in cases:
            v, rep = verd[c['key']]
            counts[v] += 1
            if v == 'REJECT':
                fid = classify(c['rec'], rep) if classify else None
                chk.violation('trace rejected by ApiTrace: clauses %s at event %s (%s) of %s %s input %r chunks %s'
                              % (json.dumps(rep.get('clauses')), rep.get('ei'), rep.get('ev'), c['rec']['prog'].name,
                                 c['rec']['prog'].args, c['rec']['data'], list(c['rec']['parts'])),
                              witness_of(c['rec'], rep), fid)
            elif v == 'NONE':
                chk.machinery_error('no verdict for trace %s' % (c['key'],))
            if c.get('trunc') and v == 'ACCEPT':
                # a truncated log whose prefix is fine: memerr or wide values
                if c['trunc'] == 'memerr':
                    chk.violation('free of a non-live block reported by the tracked allocator', witness_of(c['rec']), None)
        for r in bad:
            fid = classify(r, {'status': r['rec']['status']}) if classify else None
            what = 'driver %s (no return from the API call)' % r['rec']['status'] if r['rec']['status'] == 'hang' else \
                'driver died: %s' % (r['rec'].get('stderr', '')[-400:])
            chk.violation('%s on %s %s input %r chunks %s' % (what, r['prog'].name, r['prog'].args, r['data'], list(r['parts'])),
                          witness_of(r), fid)
        for p, data, rc in crashes:
            fid = classify({'prog': p, 'data': data, 'parts': [1] * len(data), 'rec': {'status': 'died'}}, {'status': 'died'}) if classify else None
            chk.violation('driver died (rc=%s) during a byte-by-byte walk of %s %s on input %r' % (rc, p.name, p.args, data),
                          {'program': p.name, 'args': p.args, 'source': p.src, 'input_hex': data.hex(), 'chunks': [1] * len(data)}, fid)
        for e in stats['errors']:
            chk.machinery_error('TLC: ' + str(e)[:1500])
        out['counts'] = counts
        out['wall'] = time.time() - t0
        return out
    finally:
        if not keep_records:
            shutil.rmtree(root, ignore_errors=True)


def cover_cov(out):
    cs = out.get('cover_stats') or {}
    return {'spec_guided_inputs': cs.get('inputs', 0), 'step_behaviours_reached_by_spec_guided_inputs': cs.get('items', 0)}


def sample_cases(out, k=3):
    """a few recorded traces, written out, for the evidence file"""
    samples = []
    for c in out['cases'][:: max(1, len(out['cases']) // k)][:k]:
        r = c['rec']
        samples.append({'program': r['prog'].name, 'args': r['prog'].args, 'input': repr(r['data']), 'chunks': list(r['parts']),
                        'calls': [cmd for cmd in r['rec']['script'] if cmd[0] in 'SFEX'],
                        'returned': [e.get('rc') for e in r['rec']['events'] if 'rc' in e],
                        'verdict': out['verdicts'][c['key']][0]})
    return samples
