"""Shared pipeline of the C-trace checks (C02 C03 C06 C10 C12 ...):
   programs x option sets -> real compiler -> exported machine + C binary -> guided inputs ->
   recorded NDJSON traces under chosen chunkings -> TLC trace validation against NmfuMachine."""
import os, sys, random, json, shutil, time
from concurrent.futures import ThreadPoolExecutor

import runner, trace
from gen import prog as genprog


def gather_programs(rng, n_generated, features=None, corpus=('example', 'ok'), gen_kw=None, base_args=('-O1',)):
    items = []
    for name, src, args in runner.corpus_programs(corpus):
        items.append((name, src, list(args) if args else list(base_args)))
    gen_kw = gen_kw or {}
    for i in range(n_generated):
        s = rng.randrange(1 << 30)
        p, src = genprog.generate(s, features, **gen_kw)
        items.append(('gen:%d' % s, src, list(base_args)))
    return items


def with_options(items, optsets):
    """cross every program with every option set (lists of extra args)"""
    out = []
    for name, src, args in items:
        for k, extra in enumerate(optsets):
            out.append(('%s|%d' % (name, k), src, list(args) + list(extra)))
    return out


def chunkings_for(n, rng, mode, limit):
    if n == 0:
        return [[]]
    if mode == 'whole':
        return [[n]]
    if mode == 'all' and n <= 10:
        return runner.compositions(n, rng, limit)
    cs = [[n], [1] * n]
    for cut in range(1, n):          # every single cut point
        cs.append([cut, n - cut])
    for _ in range(6):
        parts = []
        left = n
        while left:
            k = rng.randint(1, min(left, 4))
            parts.append(k)
            left -= k
        cs.append(parts)
    uniq = []
    for c in cs:
        if c not in uniq:
            uniq.append(c)
    if limit and len(uniq) > limit:
        keep = uniq[:2] + rng.sample(uniq[2:], limit - 2)
        uniq = keep
    return uniq


def record_all(progs, inputs_by_src, rng, chunk_mode, chunk_limit, sanitize=False, post_terminal=0, nthreads=12, seed=0):
    """returns list of dict(key, prog, data, parts, rec)"""
    jobs = []
    for p in progs:
        if not p.ok or not (p.bin_san if sanitize else p.bin):
            continue
        jobs.append(p)

    def one(p):
        r = random.Random(seed * 1000003 + p.pid)
        rec = runner.Recorder(p, p.bin_san if sanitize else p.bin)
        out = []
        try:
            for data in inputs_by_src.get(p.src, []):
                for parts in chunkings_for(len(data), r, chunk_mode, chunk_limit):
                    res = rec.run(data, parts, post_terminal=post_terminal)
                    if res['status'] != 'ok':
                        res['stderr'] = rec.stderr_tail
                    out.append({'key': (p.pid, data.hex(), tuple(parts)), 'prog': p, 'data': data, 'parts': parts, 'rec': res})
        finally:
            rec.close()
        return out

    with ThreadPoolExecutor(nthreads) as ex:
        chunks = list(ex.map(one, jobs))
    return [x for c in chunks for x in c]


def to_cases(records):
    cases = []
    skipped = []
    for r in records:
        p = r['prog']
        T, trunc = trace.conv_trace(r['rec']['script'], r['rec']['events'], p.m)
        if trunc and not T:
            skipped.append((r, trunc))
            continue
        cases.append({'key': r['key'], 'mtla': p.mtla(), 'T': T, 'rec': r, 'trunc': trunc})
    return cases, skipped


def summarize_outcome(rec, names):
    """observable outcome of a run independent of chunking: hook sequence with snapshots, terminal code + consumed
    offset, yields with absolute offsets, final outputs"""
    hooks = []
    off = 0
    codes = []
    final = None
    for cmd, e in zip([c for c in rec['script'] if c[0] in 'SFEX'], rec['events']):
        if e.get('ev') in ('start', 'feed', 'end'):
            for h in e['hooks']:
                hooks.append((h['n'], json.dumps(h['out'], sort_keys=True)))
            rc = names[e['rc']] if e['rc'] < len(names) else '?'
            if e['ev'] == 'feed':
                n = 0 if cmd.strip() == 'F -' else len(cmd[2:].strip()) // 2
                if rc == 'OK':
                    off += n
                elif e['adv'] >= 0:
                    codes.append((rc, off + e['adv']))
                    off += e['adv']
                else:
                    codes.append((rc, None))
            elif rc != 'OK':
                codes.append((e['ev'] + ':' + rc, None))
            final = json.dumps(e['out'], sort_keys=True)
    return {'hooks': hooks, 'codes': codes, 'final': final}
