"""C19 - command-line options resolve to a consistent configuration.

NmfuFlags.tla transcribes the resolution algorithm step by step (level, explicit overrides, implication fixpoint,
exclusion pass) with its own metadata table.  TLC enumerates every on/off/absent assignment of the eleven related
flags x every -O level (3^11 x 4; quick: a 1/6 stride chosen by the seed) and of the five optimisation flags x level,
checks the invariants on every case (implied flags on, exclusive never both, explicit conflict is an error, explicit
beats level, levels cumulative, independence of the order of distinct flags) and prints the expected final
configuration of each case; the real load_commandline_flags is then run on the same command lines (in several
spellings and orders) and must produce exactly that configuration or error.  Malformed and unknown options must be
reported as errors."""
import random, json, re, itertools
import tlc, compiler
from common import Check

REL = ["CODEPOINTS_IN_ERRORS", "DEBUG_DFA_BINARY_LABELS", "YIELD_SUPPORT", "INDIRECT_START_PTR",
       "ALLOCATE_STR_SPACE_IN_STRUCT", "ALLOCATE_STR_SPACE_DYNAMIC", "DYNAMIC_MEMORY",
       "ALLOCATE_STR_SPACE_DYNAMIC_ON_DEMAND", "DELETE_STRING_FREE_MEMORY", "HOOK_GLOBAL", "HOOK_PER_STATE"]
OPT = ["SIMPLIFY_ELSE_CONDITIONS", "REMOVE_INACCESIBLE_STATES", "COLLAPSE_TRANSITION_RANGES",
       "USE_DELETE_FOR_EMPTY_STRING", "SHORTCIRCUIT_FALLTHROUGHS"]

MALFORMED = [
    ['-fnot-a-real-flag', 'in.nmfu'], ['-fno-not-a-real-flag', 'in.nmfu'], ['--flag', 'bogus=yes', 'in.nmfu'], ['--flag', 'bogus', 'in.nmfu'],
    ['--nonsense', '3', 'in.nmfu'], ['--collapsed-range-length', 'many', 'in.nmfu'], ['--max-shortcircuit-fallthrough', '', 'in.nmfu'],
    ['-Ox', 'in.nmfu'], ['-O4', 'in.nmfu'], ['-O-1', 'in.nmfu'], ['-O', 'in.nmfu'], ['-O9', 'in.nmfu'],
    ['--output', 'a.b', 'in.nmfu'], ['-oa.b', 'in.nmfu'], ['in1.nmfu', 'in2.nmfu'], ['--flag'], ['in.nmfu', '--dump-prefix'],
    ['-', 'in.nmfu'], ['-dnothing', 'in.nmfu'], ['-q', 'in.nmfu'], ['-fyield-support'], [],
    ['--flag', 'yield-support=maybe=so', 'in.nmfu'],
]


def spell(flag, val, style):
    low = flag.lower().replace('_', '-')
    if style == 0:
        return ['-f' + low] if val else ['-fno-' + low]
    if style == 1:
        return ['--flag', low + ('=yes' if val else '=no')]
    if style == 2:
        return ['--flag', low + '=on'] if val else ['-fno-' + low]
    return ['--flag', low] if val else ['--flag', low + '=off']


def argv_of(n, names, order='canon', style=0, rng=None):
    k = len(names)
    level = n // (3 ** k)
    m = n % (3 ** k)
    items = []
    for i, f in enumerate(names):
        d = (m // (3 ** i)) % 3
        if d:
            items.append((f, d == 1))
    if order == 'rev':
        items.reverse()
    elif order == 'shuffle':
        rng.shuffle(items)
    argv = []
    for f, v in items:
        argv += spell(f, v, style if style >= 0 else rng.randrange(4))
    pos = rng.randrange(len(argv) + 1) if (rng and order == 'shuffle') else len(argv)
    # keep option/value pairs intact when inserting the level / file name
    argv = argv + ['-O%d' % level, 'in.nmfu']
    return argv


def run_tlc(which, lo, hi, stride, invs):
    cfg = 'SPECIFICATION Spec\nCONSTANTS Lo = %d\n Hi = %d\n Stride = %d\n Which = "%s"\n' % (lo, hi, stride, which)
    cfg += ''.join('INVARIANT %s\n' % i for i in invs) + 'CHECK_DEADLOCK FALSE\n'
    res = tlc.run_tlc('NmfuFlags', cfg, {}, workers=16, timeout=3000, heap='6g')
    exp = {}
    for m in re.finditer(r'^<<"R", (\d+), (-?\d+)>>', res.stdout, re.M):
        exp[int(m.group(1))] = int(m.group(2))
    return res, exp


def real_codes(argvs, names, nworkers=14):
    jobs = []
    B = 2000
    for i in range(0, len(argvs), B):
        jobs.append({'id': i, 'cmd': 'flags_batch', 'argvs': argvs[i:i + B], 'names': names})
    res = compiler.run_jobs(jobs, nworkers=min(nworkers, max(1, len(jobs))), timeout=300)
    out = []
    detail = {}
    for i in range(0, len(argvs), B):
        r = res[i]
        out += r['codes']
        for k, v in r.get('detail', {}).items():
            detail[i + int(k)] = v
    return out, detail


# ---------------------------------------------------------------------------
# whole command lines (NmfuArgv.tla)
ARGV_ALPHABET = ["in.nmfu", "9a-b.x.nmfu", "", "-", "--", "-O2", "-O0", "-O", "-Ox", "-O4", "-ofoo", "-oa.b", "-fyield-support", "-fno-indirect-start-ptr",
                 "-fhook-per-state", "-fhook-global", "-fbogus", "-f", "-t", "-tx", "-ddfa", "-dast,dfa", "-dnope", "-d", "-q", "-h", "--flag",
                 "yield-support=no", "hook-global", "bogus=yes", "a=b=c", "--output", "foo", "--dry-run", "--dump", "--dump-prefix",
                 "--collapsed-range-length", "7", "many", "--nonsense", "--help", "--version"]
ARGV_SMALL = ["in.nmfu", "", "-O2", "-ofoo", "-fyield-support", "-fno-indirect-start-ptr", "-fhook-per-state", "-fhook-global", "-t", "-ddfa", "-q",
              "--flag", "yield-support=no", "hook-global", "--output", "foo", "--dry-run", "--dump-prefix", "--collapsed-range-length", "7", "--help", "-fbogus"]
ALL16 = REL + ["SIMPLIFY_ELSE_CONDITIONS", "REMOVE_INACCESIBLE_STATES", "COLLAPSE_TRANSITION_RANGES", "USE_DELETE_FOR_EMPTY_STRING", "SHORTCIRCUIT_FALLTHROUGHS"]


def _lex_value(txt):
    """lexical facts about a string taken as an option value (the harness's own reading of docs/user-ref/cli.md)"""
    from tlagen import tla
    isint = bool(re.fullmatch(r'-?[0-9]+', txt))
    no = txt.startswith('no-')
    fshort = (txt[3:] if no else txt).upper().replace('-', '_')
    parts = txt.split('=')
    return {'txt': txt, 'int': {'ok': isint, 'n': int(txt) if isint else 0}, 'dot': '.' in txt,
            'fshort': {'name': fshort, 'val': not no},
            'flong': {'ok': len(parts) <= 2, 'name': parts[0].upper().replace('-', '_'), 'val': (parts[1] in ('yes', 'on')) if len(parts) == 2 else True},
            'dumps': {'ok': True, 'kinds': txt.split(',')}}


def _stem(txt):
    import string as _s
    base = txt.rsplit('/', 1)[-1]
    stem = base.rsplit('.', 1)[0] if '.' in base[1:] else base
    return ''.join(ch if (ch in _s.ascii_letters or ch == '_' or (i > 0 and ch in _s.digits)) else '_' for i, ch in enumerate(stem))


def argv_data(alphabet, k):
    from tlagen import tla
    values = ['']
    def vidx(t):
        if t not in values:
            values.append(t)
        return values.index(t) + 1
    alpha = []
    for sx in alphabet:
        rec = {'cls': 'empty', 'o': '', 'stem': '', 'v': 1, 'self': vidx(sx)}
        if sx == '':
            pass
        elif sx[0] != '-':
            rec.update(cls='pos', stem=_stem(sx))
        elif sx == '-':
            rec.update(cls='dash')
        elif sx[1] == '-':
            rec.update(cls='long', o=sx[2:])
        else:
            rec.update(cls='short', o=sx[1], v=vidx(sx[2:]))
        alpha.append(rec)
    return ('---- MODULE ArgvData ----\nAlphabet == %s\nValues == %s\nK == %d\n====\n' % (tla(alpha), tla([_lex_value(v) for v in values]), k))


def argv_stage(chk, alphabet, k, stride, offset, label):
    """TLC enumerates every command line of length k over the alphabet (NmfuArgv.tla) and prints the prescribed outcome; the real
    load_commandline_flags is run on the same lines."""
    na = len(alphabet)
    total = na ** k
    cfg = ('SPECIFICATION Spec\nCONSTANTS Lo = %d\n Hi = %d\n Stride = %d\n Which = "rel"\nINVARIANT InvOrderArgv\nINVARIANT InvEmitArgv\nCHECK_DEADLOCK FALSE\n'
           % (offset % stride, total - 1, stride))
    res = tlc.run_tlc('NmfuArgv', cfg, {'ArgvData': argv_data(alphabet, k)}, workers=16, timeout=3000, heap='6g')
    if not res.ok:
        chk.machinery_error('TLC on NmfuArgv (%s): %s' % (label, res.error or res.stdout[-1500:]))
        return 0, 0
    exp = {r['n']: (r['o']['c'] if r['o']['k'] == 'cfg' else r['o']['k']) for r in res.reports if 'n' in r}
    ns = sorted(exp)

    def argv_of(m):
        return [alphabet[(m // na ** (k - 1 - i)) % na] for i in range(k)]
    argvs = [argv_of(m) for m in ns]
    jobs = []
    B = 3000
    for i in range(0, len(argvs), B):
        jobs.append({'id': i, 'cmd': 'argv_batch', 'argvs': argvs[i:i + B], 'names': ALL16})
    out = compiler.run_jobs(jobs, nworkers=14, timeout=600)
    bad = 0
    seen = set()
    for i in range(0, len(argvs), B):
        if 'results' not in out[i]:
            chk.machinery_error('worker gave no answer for a batch of command lines (%s): %s' % (label, str(out[i])[:300]))
            continue
        for j, got in enumerate(out[i]['results']):
            m = ns[i + j]
            want = exp[m]
            if got != want:
                bad += 1
                # one report per kind of difference
                if isinstance(got, list) and isinstance(want, list):
                    key = ('cfg',) + tuple(x for x in range(len(want)) if got[x] != want[x])
                else:
                    key = (str(got)[:12] if not isinstance(got, list) else 'cfg', str(want) if not isinstance(want, list) else 'cfg')
                if key in seen:
                    continue
                seen.add(key)
                names = ['input', 'output name', 'dry run', 'dump kinds', 'dump prefix', 'collapsed range length', 'flags']
                if isinstance(got, list) and isinstance(want, list):
                    diff = '; '.join('%s is %r, prescribed %r' % (names[x], got[x], want[x]) for x in range(len(want)) if got[x] != want[x])
                else:
                    diff = 'outcome is %s, prescribed %s' % ({'E': 'a diagnosed error', 'X': 'exit (help / version)'}.get(got, got) if not isinstance(got, list) else 'a configuration %r' % got,
                                                            {'E': 'a diagnosed error', 'X': 'exit (help / version)'}.get(want, want) if not isinstance(want, list) else 'the configuration %r' % want)
                chk.violation('command line %r: %s' % (argvs[i + j], diff), {'argv': argvs[i + j], 'got': got, 'prescribed': want, 'case': m, 'alphabet': label})
    return len(ns), res.distinct


def run(tier, seed):
    chk = Check('C19', tier, seed, 'model_checking')
    rng = random.Random(seed * 7919 + 19)
    quick = tier != 'thorough'
    stride = 6 if quick else 1
    lo = seed % stride
    total_rel = 4 * 3 ** 11
    invs = ['InvImplied', 'InvExclusive', 'InvConflict', 'InvOrder', 'InvEmit']
    res, exp = run_tlc('rel', lo, total_rel - 1, stride, invs)
    states = res.distinct
    if not res.ok:
        # an invariant of the *specification* failed: the documented relations themselves are inconsistent
        chk.machinery_error('TLC on NmfuFlags (related flags): ' + (res.error or res.stdout[-1500:]))
    res2, exp2 = run_tlc('opt', 0, 4 * 3 ** 5 - 1, 1, ['InvImplied', 'InvExclusive', 'InvExplicit', 'InvLevels', 'InvOrder', 'InvEmit'])
    states += res2.distinct
    if not res2.ok:
        chk.machinery_error('TLC on NmfuFlags (optimisation flags): ' + (res2.error or res2.stdout[-1500:]))
    # conformance: the real function on the same command lines
    ncmp = 0
    samples = []
    for names, expd, label in ((REL, exp, 'rel'), (OPT, exp2, 'opt')):
        ns = sorted(expd)
        variants = [('canon', 0), ('rev', 1), ('shuffle', -1)] if (quick or label == 'opt') else [('canon', 0), ('rev', 1), ('shuffle', -1), ('canon', 2), ('shuffle', 3)]
        for order, style in variants:
            argvs = [argv_of(n, names, order, style, rng) for n in ns]
            codes, detail = real_codes(argvs, names)
            for j, (n, got) in enumerate(zip(ns, codes)):
                ncmp += 1
                want = expd[n]
                if got != want:
                    what = ('command line %s resolves to %s but the specification prescribes %s'
                            % (argvs[j], 'an error' if got == -1 else ('an internal exception ' + detail.get(j, '') if got == -2 else format(got, '011b')),
                               'an error' if want == -1 else format(want, '011b')))
                    chk.violation(what, {'argv': argvs[j], 'flags_order': names, 'got': got, 'expected': want, 'case': n, 'detail': detail.get(j)})
                    if len(chk.violations) > 30:
                        break
            if len(samples) < 3 and ns:
                samples.append({'argv': argvs[len(ns) // 2], 'expected_mask_or_error': expd[ns[len(ns) // 2]], 'flag_bit_order': names})
    # malformed / unknown options must be diagnosed (RuntimeError), never accepted and never an internal exception
    codes, detail = real_codes(MALFORMED, REL)
    nbad = 0
    for argv, c in zip(MALFORMED, codes):
        ncmp += 1
        if c != -1:
            nbad += 1
            fid = None
            chk.violation('malformed command line %s is %s instead of being reported as an error'
                          % (argv, 'accepted' if c >= 0 else ('exits' if c == -3 else 'an internal exception (%s)' % detail.get(MALFORMED.index(argv), ''))),
                          {'argv': argv, 'got': c}, 'malformed:' + ' '.join(argv))
    # whole command lines: every sequence of three argv strings over the full alphabet, of four over the reduced one
    n3, st3 = argv_stage(chk, ARGV_ALPHABET, 3, 3 if quick else 1, seed, 'full alphabet, length 3')
    n4, st4 = argv_stage(chk, ARGV_SMALL, 4, 9 if quick else 1, seed, 'reduced alphabet, length 4')
    ncmp += n3 + n4
    states += st3 + st4
    chk.coverage = {
        'command_lines_token_level': {'length_3_over_%d_strings' % len(ARGV_ALPHABET): n3, 'length_4_over_%d_strings' % len(ARGV_SMALL): n4,
                                      'rule': 'NmfuArgv.tla: every sequence of argv strings (options in short / long form with good and bad values, positional names, empty strings, help) - outcome class and the whole configuration compared'},
        'states': states, 'transitions': res.generated + res2.generated, 'traces_validated_against_impl': ncmp,
        'samples': samples + [{'malformed': MALFORMED[3]}],
        'cases_related_flags': len(exp), 'cases_optimisation_flags': len(exp2), 'total_related_cases': total_rel,
        'stride': stride, 'offset': lo, 'exhaustive': (stride == 1),
        'invariants': invs + ['InvExplicit', 'InvLevels'], 'malformed_lines': len(MALFORMED),
        'rule': 'every on/off/absent assignment of the 11 related flags x 4 levels (stride %d), all 3^5 x 4 optimisation-flag cases; each in canonical, reversed and shuffled order with mixed spellings' % stride,
    }
    chk.assumptions = ['the metadata table in NmfuFlags.tla is the documented relation; an edit of the code metadata shows up as a conformance mismatch']
    return chk.finish()


def replay(path):
    print(open(path).read()[:3000])
    return 0
