"""C13 - macros behave exactly like their textual expansion.

The generator emits, from one AST, a program that uses macros (nested calls; macro, hook, out, match, expr, loop and
finishcode arguments) and its hand-inlined twin (own substitution, innermost binding first).  Decided by TLC in two ways:
Equiv.tla with no slack - the machine compiled from the macro version and the machine compiled from the twin must produce
identical events, statuses and outputs on every input; and Conform.tla - the macro machine against the Lang reading of the
*inlined* AST.  The compiler's verdicts on the two versions must agree, and calls with a wrong number of arguments or an
argument of the wrong kind must be diagnosed."""
import random, collections, json
import runner, equiv
from common import Check
from gen import prog as genprog
from props import c01


def run(tier, seed):
    chk = Check('C13', tier, seed, 'model_checking')
    rng = random.Random(seed * 7919 + 13)
    quick = tier != 'thorough'
    items, twins_ast = [], []
    n = 90 if quick else 220
    for i in range(n):
        s = rng.randrange(1 << 30)
        p, src, twin, tsrc = genprog.gen_macro_program(s)
        lvl = rng.choice(['-O0', '-O1', '-O2', '-O3'])
        items.append(('macro:%d' % s, src, [lvl]))
        items.append(('twin:%d' % s, tsrc, [lvl]))
        twins_ast.append(twin)
    # the repository's own macro program
    progs = runner.compile_programs(items, want=('machine', 'codegen'))
    pairs, cpairs = [], []
    for i in range(n):
        a, b = progs[2 * i], progs[2 * i + 1]
        if a.ok != b.ok:
            chk.violation('macro program and its textual expansion get different verdicts: %s vs %s (%s)' % (a.res['outcome'], b.res['outcome'], (a.res.get('msg') or b.res.get('msg') or '')[:200]),
                          {'macro_source': a.src, 'inlined_source': b.src, 'args': a.args, 'macro': a.res.get('msg'), 'inlined': b.res.get('msg')})
        elif a.ok:
            pairs.append((a, b))
            cpairs.append((a, twins_ast[i]))
    reports, st, cases = equiv.explore(pairs, slack=False, maxlen=9 if quick else 13, budget=40000 if quick else 600000, timeout=1600 if quick else 9000)
    for e in st['errors']:
        chk.machinery_error('TLC(Equiv): ' + str(e)[:1500])
    kinds = collections.Counter()
    for (a, b), reps in zip(pairs, reports):
        for r in reps:
            kinds[r['kind']] += 1
        v = [r for r in reps if r['kind'] == 'VIOL']
        if v:
            r = min(v, key=lambda x: len(x['hist']))
            chk.violation('macro version and inlined version differ on input %s: status %s vs %s, events %s vs %s' % (r['hist'], r.get('ares'), r.get('bres'), json.dumps(r.get('aev'))[:200], json.dumps(r.get('bev'))[:200]),
                          {'macro_source': a.src, 'inlined_source': b.src, 'args': a.args, 'history': r['hist'], 'report': r})
    st2, kinds2, cases2 = c01.run_conform(chk, cpairs[:(12 if quick else 200)], 8 if quick else 12, 1600 if quick else 9000, 'macro')
    # ill-formed calls must be diagnosed
    bad_items = []
    for i in range(18 if quick else 150):
        s = rng.randrange(1 << 30)
        kind = ('arity', 'kind', 'surplus')[i % 3]
        p, src, twin, tsrc = genprog.gen_macro_program(s, bad=kind)
        bad_items.append(('bad-%s:%d' % (kind, s), src, ['-O1']))
    bad = runner.compile_programs(bad_items, want=('machine', 'codegen'))
    nbad = 0
    for p in bad:
        if p.res['outcome'] not in ('parse_error', 'compile_error', 'codegen_error'):
            nbad += 1
            chk.violation('ill-formed macro call (%s) is not diagnosed: outcome %s %s' % (p.name.split(':')[0], p.res['outcome'], (p.res.get('msg') or '')[:200]),
                          {'source': p.src, 'outcome': p.res['outcome'], 'msg': p.res.get('msg'), 'tb': p.res.get('tb')})
    chk.coverage = {
        'states': st['states'] + st2['states'], 'transitions': st['transitions'] + st2['transitions'],
        'traces_validated_against_impl': len(pairs) + min(len(cpairs), 12 if quick else 200),
        'samples': [{'macro_source': a.src, 'inlined_source': b.src, 'args': a.args} for a, b in pairs[:1]],
        'pairs': len(pairs), 'programs_generated': n, 'equiv_reports': dict(kinds), 'conform_reports': dict(kinds2), 'ill_formed_calls': len(bad_items),
        'ill_formed_not_diagnosed': nbad, 'exhaustive': False,
        'rule': 'macro families with nested calls and every argument kind; exhaustive product of the two machines over all symbol cells up to the length bound, no slack',
    }
    return chk.finish()


def replay(path):
    print(open(path).read()[:4000])
    return 0
