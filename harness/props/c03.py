"""C03 - generated parsers are memory-safe and respect output capacities.

(a) TLC (MachineMC) explores every exported machine in every storage mode with the allocation cell and the buffer cells
    of each string modelled explicitly; it reports steps that write/read through a null or freed buffer (UB), stores
    that break the capacity contract (CAP: length <= capacity, counter = bytes stored, terminator at length) and
    defaults that do not fit.  Reports are replayed on the sanitizer build before they count.
(b) Trace validation (ApiTrace) of ASan+UBSan+LSan builds: every event carries, per string, the whole buffer, the
    counter and the pointer state, which must equal the specification's cell after every call; _free must release
    every block exactly once (tracked allocator: live = 0, no free of a non-live block).
    The sanitizer itself is an external tripwire inside the trace recorder (a TLA+ specification cannot state
    'the C text has no undefined behaviour'): an abort truncates the trace, and a truncated trace is a violation."""
import random, json, shutil, collections
import runner, mc
from common import Check
from props import ctrace
from gen import prog as genprog

FEATURES = {'str', 'raw', 'int', 'bool', 'hook', 'loop', 'case', 'opt', 'try', 'foreach', 'if', 'wait', 'finish', 'regex',
            'appendc', 'setstr', 'delete', 'idx', 'idx_inrange', 'condact', 'idiom'}

STORAGE = [[], ['-fallocate-str-space-dynamic'], ['-fallocate-str-space-dynamic-on-demand'],
           ['-fallocate-str-space-dynamic-on-demand', '-fdelete-string-free-memory']]


def run(tier, seed):
    chk = Check('C03', tier, seed, 'model_checking')
    rng = random.Random(seed * 7919 + 3)
    quick = tier != 'thorough'
    ngen = 14 if quick else 40
    base = []
    for name, src, args in runner.corpus_programs(('example', 'ok')):
        if 'str' in src or 'raw' in src:
            base.append((name, src, list(args)))
    if quick:
        base = [b for i, b in enumerate(base) if i % 2 == 0 or b[0].startswith('corpus/')]
    unsafe_ok = set()
    for i in range(ngen):
        s = rng.randrange(1 << 30)
        inrange = i % 2 == 0
        p, src = genprog.generate(s, FEATURES if inrange else FEATURES - {'idx_inrange'}, maxdepth=2, maxstmts=3)
        base.append(('gen:%d' % s, src, [rng.choice(['-O1', '-O2', '-O3'])]))
        if inrange:
            unsafe_ok.add('gen:%d' % s)
    boundary = {}
    for i in range(6 if quick else 16):
        s = rng.randrange(1 << 30)
        p, src = genprog.gen_boundary_program(s)
        base.append(('boundary:%d' % s, src, ['-O1']))
        boundary[src] = p['outs'][0]['size']
    for i in range(5 if quick else 16):
        s = rng.randrange(1 << 30)
        base.append(('life:%d' % s, genprog.gen_lifecycle_program(s)[1], [rng.choice(['-O1', '-O2', '-O3'])]))
    items = []
    for i, (name, src, args) in enumerate(base):
        for k, st in enumerate(STORAGE):
            if name.startswith('boundary:') and quick and k not in (0, 3):
                continue
            extra = []
            if (i + k) % 2:
                extra.append('-fstrings-as-u8')
            if (i + k) % 3 == 0 and name in unsafe_ok:
                extra.append('-funsafe-string-indexing')
            items.append(('%s#%d' % (name, k), src, list(args) + st + extra))

    def extra_inputs(p):
        if p.src in boundary:
            n = boundary[p.src]
            return [b'ab' * (n // 2) + b';x' + b'a' * 3 + b'!' + b'ab;x', b'a' * (n + 1) + b'!' + b'b;x', b'a' * max(0, n - 2) + b';x' + b'ba;x']
        return []
    out = ctrace.run_pipeline(chk, items, rng, seed, nwalks=6 if quick else 14, maxlen=16, chunk_mode='some', chunk_limit=2,
                              sanitize=True, keep_records=True, extra_inputs=extra_inputs, cover=8 if quick else 20)
    try:
        progs = [p for p in out['progs'] if p.bin_san]
        # single-step sweeps of the sanitizer builds from forced contexts (empty / one-below-full / full buffers)
        from props import c06
        swprogs = [p for p in progs if len(p.m['states']) <= (40 if quick else 400)]
        swcases, nsweeps, dropped = c06.sweeps_for(chk, swprogs, rng, 4, 2, out['root'], use_san=True)
        swres, swst = runner.validate_sweeps(swcases, workers=2, parallel=8)
        swacc = 0
        for c, (v, reps) in zip(swcases, swres):
            if v == 'ACCEPT':
                swacc += 1
            elif v == 'REJECT':
                r = [x for x in reps if x['kind'] == 'REJECT'][0]
                chk.violation('single step from a forced context differs (%s) in state %s on symbol %s for %s %s'
                              % (r['clause'], r['q'], r['sym'], c['p'].name, c['p'].args),
                              {'program': c['p'].name, 'args': c['p'].args, 'source': c['p'].src, 'state': r['q'], 'symbol': r['sym'],
                               'context': r['pre'], 'spec': r['spec'], 'impl': r['impl']})
            else:
                chk.machinery_error('no verdict for sweeps of %s' % (c['key'],))
        for e in swst['errors']:
            chk.machinery_error('TLC(StepTrace): ' + str(e)[:1500])
        reports, st, cases = mc.explore(progs, None, post=1, budget=4000 if quick else 100000, timeout=1500 if quick else 9000)
        for e in st['errors']:
            chk.machinery_error('TLC(MachineMC): ' + str(e)[:1500])
        kinds = collections.Counter()
        confirmed = 0
        for p, reps in zip(progs, reports):
            done = set()
            for r in reps:
                if r['kind'] not in ('UB', 'CAP'):
                    continue
                kinds[r['kind']] += 1
                if r['kind'] in done:
                    continue
                done.add(r['kind'])
                if r['kind'] == 'UB' and 'unsafe' in ' '.join(p.args) and 'index' in str(r.get('why', '')):
                    continue
                why = str(r.get('why', ''))
                if r['kind'] == 'UB' and not any(k in why for k in ('null', 'freed', 'memcpy', 'beyond')):
                    # undefined *arithmetic* of a user expression (shift count, signed overflow, division by zero) is outside this
                    # property and invisible to the memory sanitizers: only memory-related reports are replayed
                    kinds['UB(arithmetic, ignored)'] += 1
                    continue
                steps_, status = mc.replay_hist(p, r['hist'], p.bin_san)
                if r['kind'] == 'UB':
                    if status != 'ok':
                        confirmed += 1
                        chk.violation('specification reports undefined behaviour (%s) and the sanitizer build aborts: %s %s history %s'
                                      % (r.get('why'), p.name, p.args, r['hist']),
                                      {'program': p.name, 'args': p.args, 'source': p.src, 'history': r['hist'], 'why': r.get('why')})
                    else:
                        chk.machinery_error('MachineMC reported UB (%s) for %s %s on %s but the sanitizer build runs through' % (r.get('why'), p.name, p.args, r['hist']))
                else:
                    confirmed += 1
                    chk.violation('capacity contract broken in the specification store: %s %s history %s' % (p.name, p.args, r['hist']),
                                  {'program': p.name, 'args': p.args, 'source': p.src, 'history': r['hist'], 'store': r.get('d')})
        chk.coverage = {
            'states': out['stats']['states'] + st['states'] + swst['states'], 'transitions': out['stats']['transitions'] + st['transitions'] + swst['transitions'],
            'traces_validated_against_impl': out['counts']['ACCEPT'] + swacc, 'single_step_sweeps': nsweeps, 'samples': ctrace.sample_cases(out, 3),
            **ctrace.cover_cov(out),
            'programs': len(base), 'binaries_sanitized': len(progs), 'storage_modes': STORAGE,
            'trace_verdicts': dict(out['counts']), 'runs_aborted_or_hung': len(out['bad']), 'machine_reports': dict(kinds),
            'machine_reports_confirmed': confirmed, 'unbuildable': len(out['unbuildable']), 'exhaustive': False,
            'rule': 'every program x {in-struct, dynamic, on-demand, on-demand+delete-frees} with u8/unsafe-indexing alternating; guided walks, whole-chunk and byte-at-a-time',
        }
        chk.assumptions = ['clang ASan+UBSan+LSan as external tripwire inside the recorder', 'unsafe indexing only with in-range constant indices',
                           'malloc never fails']
        for p in out['unbuildable'][:3]:
            chk.violation('emitted C does not build for %s %s: %s' % (p.name, p.args, p.buildlog[-300:]),
                          {'program': p.name, 'args': p.args, 'source': p.src, 'log': p.buildlog[-2000:]})
    finally:
        shutil.rmtree(out['root'], ignore_errors=True)
    return chk.finish()


def replay(path):
    print(open(path).read()[:4000])
    return 0
