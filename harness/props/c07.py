"""C07 - a compiled regular expression accepts exactly its language.

For each regex AST (enumerated by size over a small atom set, plus random larger ones with classes, ranges, repeats and
binary bytes) the generator prints the source spelling; the real compiler builds the matcher; Conform.tla explores the
product of that machine with the Antimirov-derivative automaton of the *AST* (NmfuRegex, own class tables) over every
symbol cell of 0..255 and end-of-input: the machine must report a mismatch exactly when no member of the language is
reachable, finish exactly when the derivative set is finished, and (sentinel variant `/re/; "<byte>";`) hand the
symbol after a complete match to the following statement exactly when the prefix is in the language."""
import random, json, collections
import runner, conform
from common import Check
from gen import prog as genprog, regexgen
from props import c01


def regex_program(r, binary, sentinel=None, eof=False):
    body = [{'t': 'match', 'm': {'k': 're', 'r': r, 'bin': binary}}]
    if sentinel is not None:
        body.append({'t': 'match', 'm': {'k': 'str', 'bytes': [sentinel]}})
    p = {'outs': [], 'hooks': [], 'fcodes': [], 'ycodes': [], 'macros': [], 'body': body, 'args': []}
    return p, genprog.spell_program(p)


def run(tier, seed):
    chk = Check('C07', tier, seed, 'model_checking')
    rng = random.Random(seed * 7919 + 7)
    quick = tier != 'thorough'
    asts = []
    for size in (1, 2, 3):
        asts += [(a, False) for a in regexgen.enumerate_asts(size)]
    if quick:
        small = [x for x in asts if True]
        rng.shuffle(small)
        asts = small[:160]
    else:
        four = regexgen.enumerate_asts(4)
        asts += [(a, False) for a in rng.sample(four, min(800, len(four)))]
    for i in range(160 if quick else 500):
        binary = rng.random() < 0.3
        asts.append((regexgen.random_ast(rng, 0, binary), binary))
    # corner regexes that are always included, with EOF support: wildcards and inverted sets against end-of-input,
    # binary ranges touching 0x00 / 0xff (range collapsing), classes
    ANY = {'k': 'any'}
    NOTA = {'k': 'set', 'inv': True, 'items': [['ch', 97]]}
    corner = [(ANY, False), ({'k': 'plus', 'c': ANY}, False), ({'k': 'rep', 'c': ANY, 'n': 3}, False), (NOTA, False), ({'k': 'plus', 'c': NOTA}, False),
              ({'k': 'seq', 'c': [{'k': 'star', 'c': ANY}, {'k': 'ch', 'c': 97}]}, False), ({'k': 'seq', 'c': [{'k': 'ch', 'c': 97}, ANY]}, False),
              ({'k': 'cc', 'n': 'D'}, False), ({'k': 'plus', 'c': {'k': 'cc', 'n': 'W'}}, False), ({'k': 'plus', 'c': {'k': 'cc', 'n': 'w'}}, False),
              ({'k': 'rep', 'c': ANY, 'n': 2}, True), ({'k': 'set', 'inv': False, 'items': [['range', 0, 127]]}, True),
              ({'k': 'set', 'inv': False, 'items': [['range', 0, 4]]}, True), ({'k': 'set', 'inv': True, 'items': [['range', 0, 31]]}, True),
              ({'k': 'seq', 'c': [{'k': 'star', 'c': {'k': 'set', 'inv': False, 'items': [['range', 128, 255]]}}, {'k': 'set', 'inv': False, 'items': [['range', 0, 127]]}]}, True),
              ({'k': 'set', 'inv': False, 'items': [['range', 250, 255], ['ch', 0]]}, True)]
    # character-class algebra inside sets (quick: a rotating third)
    alg = regexgen.set_algebra()
    corner += [(a, False) for i, a in enumerate(alg) if not quick or i % 3 == seed % 3 or sum(1 for it in a['items'] if it[0] == 'cc' and it[1].isupper()) >= 2]
    ncorner = len(corner)
    asts = corner + asts
    items, progs_ast = [], []
    for i, (r, binary) in enumerate(asts):
        for variant in ('bare', 'sentinel'):
            eof = (i % 3 == 0) or i < ncorner
            sent = None if variant == 'bare' else (0x21 if not binary else 0x0a)
            ast, src = regex_program(r, binary, sent)
            lvl = ['-O1', '-O2', '-O3'][i % 3] if i >= ncorner else '-O2' 
            items.append(('re%d:%s' % (i, variant), src, [lvl] + (['-feof-support'] if eof else [])))
            progs_ast.append(ast)
    progs = runner.compile_programs(items, want=('machine', 'codegen'))
    pairs = [(p, a) for p, a in zip(progs, progs_ast) if p.ok]
    crashed = [p for p in progs if p.res['outcome'] in ('internal_error', 'timeout')]
    for p in crashed[:5]:
        chk.violation('compiler crashed on a regex program: %s: %s' % (p.src.strip().splitlines()[-2], p.res.get('msg')),
                      {'source': p.src, 'args': p.args, 'outcome': p.res['outcome'], 'msg': p.res.get('msg'), 'tb': p.res.get('tb')}, None)
    st, kinds, cases = c01.run_conform(chk, pairs, 8 if quick else 12, 1600 if quick else 9000, 'regex')
    # C stage: the emitted matcher of a subset, every state x every byte 0..255 (+ end), validated against the machine (StepTrace)
    import shutil
    from props import c06
    sub = [p for p, a in pairs][:ncorner * 2:(3 if quick else 1)] + [p for p, a in pairs][ncorner * 2::(7 if quick else 3)]
    built = runner.compile_programs([(p.name, p.src, p.args) for p in sub])
    root = runner.scratch_dir()
    nsweeps = swacc = 0
    try:
        runner.build_programs(built, root)
        swcases, nsweeps, dropped = c06.sweeps_for(chk, built, rng, 1, 1, root)
        swres, swst = runner.validate_sweeps(swcases, workers=2, parallel=8)
        for c, (v, reps) in zip(swcases, swres):
            if v == 'ACCEPT':
                swacc += 1
            elif v == 'REJECT':
                r = [x for x in reps if x['kind'] == 'REJECT'][0]
                chk.violation('emitted matcher differs from the compiled machine (%s) in state %s on symbol %s for %s %s'
                              % (r['clause'], r['q'], r['sym'], c['p'].src.strip().splitlines()[1], c['p'].args),
                              {'source': c['p'].src, 'args': c['p'].args, 'state': r['q'], 'symbol': r['sym'], 'spec': r['spec'], 'impl': r['impl']})
            else:
                chk.machinery_error('no verdict for sweeps of %s' % (c['key'],))
        for e in swst['errors']:
            chk.machinery_error('TLC(StepTrace): ' + str(e)[:1500])
        st['states'] += swst['states']
        st['transitions'] += swst['transitions']
    finally:
        shutil.rmtree(root, ignore_errors=True)
    rejected = collections.Counter(p.res.get('errclass') for p in progs if not p.ok)
    chk.coverage = {
        'states': st['states'], 'transitions': st['transitions'], 'traces_validated_against_impl': len(pairs),
        'samples': [{'source': c['p'].src, 'args': c['p'].args, 'symbols': c['syms']} for c in cases[:3]],
        'regexes': len(asts), 'binaries_swept': len(sub), 'single_step_sweeps': nsweeps, 'programs_accepted': len(pairs), 'programs_rejected': dict(rejected), 'report_kinds': dict(kinds),
        'exhaustive': False,
        'rule': 'every regex AST of size <= 3 over {a, b, [ab], [^a], ., \\d} x all operators (sampled in the quick tier) + random larger ones (text and binary); product search over all symbol cells + end',
    }
    chk.assumptions = ['OP1: after a complete match that can still continue, a non-continuing symbol at the end of the program may give FAIL or DONE']
    return chk.finish()


def replay(path):
    print(open(path).read()[:4000])
    return 0
