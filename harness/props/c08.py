"""C08 - a case statement runs exactly the clause whose pattern matched.

Conform.tla on generated case / greedy-case programs whose clauses carry distinct markers (enum assignment + hook; yield
codes in yield mode).  The Lang case frame runs all clause patterns in parallel as derivative sets; the else clause (or the
no-match error) is taken exactly when no pattern continues and none has matched, at the offending symbol; the greedy form
is maximal munch, then highest priority."""
import random
import runner
from common import Check
from gen import prog as genprog
from props import c01


def run(tier, seed):
    chk = Check('C08', tier, seed, 'model_checking')
    rng = random.Random(seed * 7919 + 8)
    quick = tier != 'thorough'
    c01.pinned_hooks(chk)
    items, asts = [], []
    for i in range(360 if quick else 900):
        s = rng.randrange(1 << 30)
        ym = i % 4 == 0
        ast, src = genprog.gen_case_program(s, ym)
        items.append(('case:%d' % s, src, [rng.choice(['-O0', '-O1', '-O2', '-O3'])] + (['-fyield-support'] if ym else [])))
        asts.append(ast)
    progs = runner.compile_programs(items, want=('machine', 'codegen'))
    pairs = [(p, a) for p, a in zip(progs, asts) if p.ok]
    st, kinds, cases = c01.run_conform(chk, pairs, 8 if quick else 12, 1600 if quick else 9000, 'case')
    from props import c06
    cs = c06.c_stage(chk, [p for p, a in pairs][::5 if quick else 2], rng, 2, "case program")
    chk.coverage = {
        'states': st['states'] + cs['states'], 'transitions': st['transitions'] + cs['transitions'], 'traces_validated_against_impl': len(pairs) + cs['accepted'],
        'c_stage': cs,
        'samples': [{'source': c['p'].src, 'args': c['p'].args, 'symbols': c['syms']} for c in cases[:2]],
        'programs_accepted': len(pairs), 'programs_generated': len(items), 'greedy': sum(1 for p, a in pairs if 'greedy case' in p.src),
        'report_kinds': dict(kinds), 'exhaustive': False,
        'rule': '2-5 clauses; literals, case-insensitive literals, regexes, several patterns per clause, else alone or combined, priorities 0-2, empty / action-only / consuming bodies; product search over all symbol cells',
    }
    chk.assumptions = ['known deviation recorded separately: greedy clauses with action-only bodies (see known_findings.txt)']
    return chk.finish()


def replay(path):
    print(open(path).read()[:4000])
    return 0
