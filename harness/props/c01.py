"""C01 - accepted programs behave as their procedural reading prescribes.

Conform.tla: TLC explores the product of the machine exported from the real compiler and the source-level semantics
NmfuLang (an independent reading of docs/user-ref/parser.md) over all symbol cells, keeping the set of Lang
configurations consistent with everything the machine emitted (hook calls with snapshots, yields, status, final
outputs).  A symbol after which no Lang configuration explains the machine is a violation; its input history is
replayed on the C binary, which must show what the machine does, before it is reported."""
import random, json, shutil, collections
import runner, conform, mc, trace
from common import Check
from gen import prog as genprog

FEATURES = {'str', 'int', 'bool', 'enum', 'hook', 'finish', 'regex', 'case', 'opt', 'loop', 'try', 'wait', 'foreach', 'if', 'condact',
            'stri', 'setstr', 'delete', 'appendc', 'greedy', 'idiom'}


def gen_items(rng, n, features, levels=('-O0', '-O1', '-O2', '-O3', '-O3', '-O3'), extra=()):
    items, asts = [], []
    for i in range(n):
        s = rng.randrange(1 << 30)
        f = set(features)
        args = [rng.choice(levels)] + list(extra)
        if 'yield' in f and rng.random() < 0.5:
            args.append('-fyield-support')
        else:
            f.discard('yield')
        if 'end' in f and rng.random() < 0.5:
            args.append('-feof-support')
        else:
            f.discard('end')
        ast, src = genprog.generate(s, f, maxdepth=2, maxstmts=3)
        items.append(('gen:%d' % s, src, args))
        asts.append(ast)
    return items, asts


def confirm_on_binary(p, rep):
    """replay the witness on the C binary: it must behave as the exported machine did (events and status)"""
    progs = runner.compile_programs([(p.name, p.src, p.args)])
    root = runner.scratch_dir()
    try:
        runner.build_programs(progs, root)
        q = progs[0]
        if not q.bin:
            return None, 'binary does not build'
        steps, status = mc.replay_hist(q, rep['hist'])
        names = trace.rc_names(q.m)
        hooks = []
        codes = []
        for c, evs in steps:
            for e in evs:
                for h in e.get('hooks', []):
                    hooks.append(h['n'])
                rc = names[e['rc']] if e.get('rc', 99) < len(names) else '?'
                codes.append(rc)
        return (status == 'ok'), {'status': status, 'hook_calls': hooks, 'codes': codes}
    finally:
        shutil.rmtree(root, ignore_errors=True)


def pinned_hooks(chk):
    """re-run pinned witnesses of kind 'hooks': the binary's hook-call sequence on a fixed input"""
    import os
    for k in chk.known:
        w = k.get('witness', {})
        if w.get('kind') != 'hooks':
            continue
        path = os.path.join(os.path.dirname(os.path.dirname(os.path.abspath(__file__))), '..', w['program'])
        src = open(os.path.normpath(path)).read()
        progs = runner.compile_programs([(w['program'], src, w['args'])])
        root = runner.scratch_dir()
        try:
            runner.build_programs(progs, root)
            if progs[0].bin:
                steps, status = mc.replay_hist(progs[0], list(bytes.fromhex(w['input_hex'])))
                hooks = [h['n'] for c, evs in steps for e in evs for h in e.get('hooks', [])]
                if hooks == w['observed_hooks']:
                    chk.known_hits.append((k['id'], 'pinned witness %s on input %r calls %s (prescribed: %s)' % (w['program'], bytes.fromhex(w['input_hex']), hooks, w['expected_hooks'])))
        finally:
            shutil.rmtree(root, ignore_errors=True)


def run_conform(chk, pairs, maxlen, timeout, label):
    # open point OP3 (DESIGN.md section 5): programs with an optional whose body does not start with a plain, non-empty match are not
    # judged against the source semantics (whether a byte that only a fall-back takes enters the optional is not settled by the reference)
    from gen import enumprog as _ep
    kept = []
    for p, ast in pairs:
        try:
            weak = _ep.opt_weak_start(ast['body'])
        except Exception:
            weak = False
        if not weak:
            kept.append((p, ast))
    chk.coverage_skipped_op3 = getattr(chk, 'coverage_skipped_op3', 0) + len(pairs) - len(kept)
    pairs = kept
    reports, st, cases = conform.explore(pairs, maxlen=maxlen, timeout=timeout)
    for e in st['errors']:
        chk.machinery_error('TLC(Conform %s): %s' % (label, str(e)[:1500]))
    kinds = collections.Counter()
    nviol = 0
    for (p, ast), reps in zip(pairs, reports):
        for r in reps:
            kinds[r['kind']] += 1
        v = [r for r in reps if r['kind'] == 'VIOL']
        if v:
            r = min(v, key=lambda x: len(x['hist']))
            ok, detail = confirm_on_binary(p, r)
            nviol += 1
            fid = None
            try:
                from gen import enumprog
                if r['mres'] == 'FAIL' and r.get('lang') and all(l.get('st') == 'fin' for l in r['lang']) and enumprog.lazy_finish_shape(ast['body']):
                    fid = 'finish-after-skipped-construct'
                elif enumprog.foreach_clause_action(ast['body']) and [e.get('n') for e in r['mev']] in [[e.get('n') for e in l.get('ev', [])] for l in r.get('lang', [])]:
                    fid = 'foreach-clause-action-after-each'      # same calls, other snapshot
            except Exception:
                fid = None
            chk.violation('no procedural reading explains the compiled machine after input %s (%r) for %s %s: machine status %s, events %s; binary: %s'
                          % (r['hist'], bytes(x for x in r['hist'] if x < 256), p.name, p.args, r['mres'],
                             [e.get('n', e.get('code')) for e in r['mev']], json.dumps(detail)[:300]),
                          {'program': p.name, 'args': p.args, 'source': p.src, 'history': r['hist'], 'machine_status': r['mres'],
                           'machine_events': r['mev'], 'lang_candidates': r['lang'][:8], 'binary': detail}, fid)
        zp = [r for r in reps if r['kind'] == 'ZEROPROGRESS']
        if zp:
            chk.violation('the procedural reading makes no progress (control flow goes round without consuming) but the program was accepted: %s %s after %s'
                          % (p.name, p.args, zp[0]['hist']), {'program': p.name, 'args': p.args, 'source': p.src, 'history': zp[0]['hist']})
    return st, kinds, cases


def pinned(chk):
    """re-run the pinned witness of every known finding of this property on the real binary"""
    import os, shutil
    from common import ROOT
    for k in chk.known:
        w = k.get('witness', {})
        if w.get('kind') != 'endhooks':
            continue
        src = open(os.path.join(ROOT, w['program'])).read()
        progs = runner.compile_programs([(w['program'], src, w['args'])])
        root = runner.scratch_dir()
        try:
            runner.build_programs(progs, root)
            if progs[0].bin:
                steps, status = mc.replay_hist(progs[0], w['history'])
                at_end = [h['n'] for c, evs in steps if c == 256 for e in evs for h in e.get('hooks', [])]
                if status == 'ok' and at_end == w['observed_hooks_at_end']:
                    chk.known_hits.append((k['id'], 'pinned witness %s %s history %s: end() calls %s (prescribed: %s)'
                                           % (w['program'], w['args'], w['history'], at_end, w['prescribed_hooks_at_end'])))
        finally:
            shutil.rmtree(root, ignore_errors=True)


def pinned_status(chk):
    """pinned witnesses of kind 'status': the code the binary returns for the last symbol of a fixed history"""
    import os
    from common import ROOT
    for k in chk.known:
        w = k.get('witness', {})
        if w.get('kind') == 'hooksnap':
            # the value of one output as the last hook call of a fixed history sees it
            src = open(os.path.join(ROOT, w['program'])).read()
            progs = runner.compile_programs([(w['program'], src, w['args'])])
            root = runner.scratch_dir()
            try:
                runner.build_programs(progs, root)
                if progs[0].bin:
                    steps, status = mc.replay_hist(progs[0], w['history'])
                    hooks = [h for c, evs in steps for e in evs for h in e.get('hooks', [])]
                    if status == 'ok' and hooks and hooks[-1]['out'].get(w['var'], {}).get('v') == w['observed']:
                        chk.known_hits.append((k['id'], 'pinned witness %s %s history %s: the last hook call sees %s = %s (prescribed: %s)'
                                               % (w['program'], w['args'], w['history'], w['var'], w['observed'], w['prescribed'])))
            finally:
                shutil.rmtree(root, ignore_errors=True)
            continue
        if w.get('kind') != 'status':
            continue
        src = open(os.path.join(ROOT, w['program'])).read()
        progs = runner.compile_programs([(w['program'], src, w['args'])])
        root = runner.scratch_dir()
        try:
            runner.build_programs(progs, root)
            if progs[0].bin:
                steps, status = mc.replay_hist(progs[0], w['history'])
                names = trace.rc_names(progs[0].m)
                last = steps[-1][1][-1] if steps and steps[-1][1] else None
                rc = names[last['rc']] if last and last.get('rc', 99) < len(names) else '?'
                if status == 'ok' and rc == w['observed']:
                    chk.known_hits.append((k['id'], 'pinned witness %s %s history %s: the parser returns %s (prescribed: %s)'
                                           % (w['program'], w['args'], w['history'], rc, w['prescribed'])))
        finally:
            shutil.rmtree(root, ignore_errors=True)


def run(tier, seed):
    chk = Check('C01', tier, seed, 'model_checking')
    pinned(chk)
    pinned_status(chk)
    rng = random.Random(seed * 7919 + 1)
    quick = tier != 'thorough'
    items, asts = gen_items(rng, 260 if quick else 700, FEATURES | {'yield', 'end'})
    # targeted families: structured foreach bodies, result-code runs
    for i in range(40 if quick else 120):
        sd = rng.randrange(1 << 30)
        if i % 4 == 3:
            ast, src = genprog.gen_protocol_program(sd)
            items.append(('proto:%d' % sd, src, [rng.choice(['-O0', '-O1', '-O3']), '-fyield-support']))
        else:
            ast, src = genprog.gen_foreach_program(sd)
            items.append(('foreach:%d' % sd, src, [rng.choice(['-O0', '-O1', '-O2', '-O3'])]))
        asts.append(ast)
    progs = runner.compile_programs(items, want=('machine', 'codegen'))
    pairs = [(p, a) for p, a in zip(progs, asts) if p.ok]
    st, kinds, cases = run_conform(chk, pairs, 10 if quick else 14, 1600 if quick else 9000, 'generated')
    # bounded-exhaustive family: every small program of a compact grammar with all control constructs (a strided slice in the quick tier)
    from props import enumfam
    e_items, e_asts, e_info = enumfam.slice_(tier, seed)
    e_progs = runner.compile_programs(e_items, want=('machine', 'codegen'))
    e_pairs = [(p, a) for p, a in zip(e_progs, e_asts) if p.ok and not a.get('known_class') and not a.get('op8')]
    est, ekinds, ecases = run_conform(chk, e_pairs, 7 if quick else 8, 1600 if quick else 9000, 'enumerated')
    st['states'] += est['states']
    st['transitions'] += est['transitions']
    kinds.update(ekinds)
    e_info.update(accepted=sum(1 for p in e_progs if p.ok), judged_against_source_semantics=len(e_pairs),
                  left_out_known_finding_shape=sum(1 for p, a in zip(e_progs, e_asts) if p.ok and a.get('known_class')),
                  left_out_open_point_OP8_shape=sum(1 for p, a in zip(e_progs, e_asts) if p.ok and a.get('op8') and not a.get('known_class')))
    sample = []
    for c in cases[:2]:
        sample.append({'program': c['p'].name, 'args': c['p'].args, 'source': c['p'].src, 'symbols': c['syms'], 'max_input_length': c['maxlen']})
    # C stage: bind the emitted C of some of the accepted programs to the machines judged above (every state x every byte)
    from props import c06
    sel = [p for i, (p, a) in enumerate(pairs) if i % (5 if quick else 8) == 0]
    cst = c06.c_stage(chk, sel, rng, nctx=2, label='program') if sel else {'states': 0, 'transitions': 0, 'sweeps': 0, 'accepted': 0, 'binaries': 0}
    chk.coverage = {
        'states': st['states'] + cst['states'], 'transitions': st['transitions'] + cst['transitions'], 'traces_validated_against_impl': len(pairs) + len(e_pairs) + cst['accepted'],
        'binaries_swept': cst['binaries'], 'single_step_sweeps': cst['sweeps'],
        'samples': sample, 'programs_accepted': len(pairs), 'programs_generated': len(items),
        'report_kinds': dict(kinds), 'exhaustive': False, 'enumerated_family': enumfam.describe(e_info),
        'rule': 'product search of (machine state, data, set of Lang configurations) over one representative per symbol cell, inputs up to the per-program length bound (search closes earlier when the product is finite)',
    }
    chk.assumptions = ['open points OP1-OP8 of DESIGN.md section 8 are admitted by the oracle', 'data effects of actions reuse the machine specification\'s action semantics (decided separately by C14/C15)',
                       'the emitted C executes the exported machine: swept here for every fifth accepted program, decided in general by C06']
    return chk.finish()


def replay(path):
    print(open(path).read()[:4000])
    return 0
