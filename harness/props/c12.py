"""C12 - representation options never change what is parsed.

One program, one input set, binaries for every row of a pairwise covering array over the representation options.
Every recorded trace is validated by TLC against the machine specification of *its own* build (ApiTrace; the spec's
store models the representation: allocation cells, char/u8 views), and the representation-independent observables
(result codes, pointer advance, output contents and lengths, hook sequence with snapshots) are then compared across
the option rows of the same program and input."""
import random, json, shutil, collections
import runner, trace, covering
from common import Check
from props import ctrace
from gen import prog as genprog

PARAMS = {
    'storage': ['struct', 'dynamic', 'ondemand', 'ondemand_free'],
    'u8': [0, 1], 'hooks': ['global', 'perstate'], 'userptr': [0, 1], 'packed': [0, 1], 'pragma': [0, 1], 'cppguard': [0, 1],
    'indirect': [0, 1], 'zerolen': [0, 1], 'collapse': ['off', '1', '4', '300'],
}


YFEATURES = {'str', 'int', 'bool', 'hook', 'loop', 'case', 'opt', 'try', 'if', 'wait', 'finish', 'yield', 'regex', 'appendc', 'delete', 'idiom'}


def row_args(row):
    a = []
    a += {'struct': [], 'dynamic': ['-fallocate-str-space-dynamic'], 'ondemand': ['-fallocate-str-space-dynamic-on-demand'],
          'ondemand_free': ['-fallocate-str-space-dynamic-on-demand', '-fdelete-string-free-memory']}[row['storage']]
    if row['u8']:
        a.append('-fstrings-as-u8')
    if row['hooks'] == 'perstate':
        a.append('-fhook-per-state')
    if row['userptr']:
        a.append('-finclude-user-ptr')
    if row['packed']:
        a.append('-fuse-packed-enums')
    if row['pragma']:
        a.append('-fuse-pragma-once')
    if not row['cppguard']:
        a.append('-fno-use-cplusplus-guard')
    if row['indirect']:
        a.append('-findirect-start-ptr')
    if row['zerolen']:
        a.append('-fzero-len-input-support')
    if row['collapse'] == 'off':
        a.append('-fno-collapse-transition-ranges')
    else:
        a += ['-fcollapse-transition-ranges', '--collapsed-range-length', row['collapse']]
    return a


def observable(rec, names, indirect):
    """representation-independent view of a run: per call (code, hooks with contents), final contents"""
    def outs(o):
        r = {}
        for k, v in o.items():
            if 'v' in v:
                r[k] = v['v']
            else:
                b = bytes.fromhex(v['buf']) if v['buf'] else b''
                r[k] = (v['len'], b[:v['len']].hex())
        return r
    calls = []
    for e in rec['events']:
        if e.get('ev') in ('start', 'feed', 'end'):
            rc = names[e['rc']] if e['rc'] < len(names) else '?'
            calls.append((e['ev'], rc, [(h['n'], h['iv'], json.dumps(outs(h['out']), sort_keys=True)) for h in e['hooks']],
                          json.dumps(outs(e['out']), sort_keys=True)))
    return calls


def run(tier, seed):
    chk = Check('C12', tier, seed, 'model_checking')
    rng = random.Random(seed * 7919 + 12)
    quick = tier != 'thorough'
    rows = covering.covering_array(PARAMS, t=2 if quick else 3, rng=random.Random(seed))
    if quick:
        rows = rows[:16] if len(rows) > 16 else rows
    base = ctrace.gather_programs(rng, 12 if quick else 36, corpus=('ok',) if quick else ('example', 'ok'),
                                  gen_kw=dict(maxdepth=2, maxstmts=3), base_args=())
    if quick:
        base = [b for i, b in enumerate(base) if i % 3 == 0 or b[0].startswith('gen:') or b[0].startswith('corpus/')]
    for i in range(3 if quick else 12):
        sd = rng.randrange(1 << 30)
        base.append(('range:%d' % sd, genprog.gen_range_program(sd)[1], []))
    # end-of-input programs (hooks and actions on `end` transitions) under EOF support: the hook placement / user pointer
    # options also apply inside <parser>_end
    for i in range(4 if quick else 16):
        sd = rng.randrange(1 << 30)
        base.append(('end:%d' % sd, genprog.gen_end_program(sd)[1], ['-feof-support']))
    for i in range(3 if quick else 12):
        sd = rng.randrange(1 << 30)
        base.append(('life:%d' % sd, genprog.gen_lifecycle_program(sd)[1], []))
    items = []
    for bi, (name, src, args) in enumerate(base):
        # quick: all 16 rows; thorough: every row of the 3-way array is used by some program, each program under 40 of them
        use = list(enumerate(rows)) if quick or len(rows) <= 40 else [((bi * 13 + k) % len(rows), rows[(bi * 13 + k) % len(rows)]) for k in range(40)]
        for k, row in use:
            items.append(('%s#row%d' % (name, k), src, list(args) + row_args(row)))
    # yield programs at -O3 (yields merged onto consuming transitions): pointer mode is fixed by yield support, the other
    # representation options still vary; fed whole and one byte per call, so every yield is re-entered at a chunk end
    yrows = [r for r in covering.covering_array({k: v for k, v in PARAMS.items() if k != 'indirect'}, t=2, rng=random.Random(seed + 1))]
    yrows = yrows[:6] if quick else yrows
    for i in range(5 if quick else 24):
        sd = rng.randrange(1 << 30)
        if i % 2:
            src = genprog.gen_case_program(sd, yield_mode=True)[1]
        else:
            src = genprog.generate(sd, YFEATURES, maxdepth=2, maxstmts=3)[1]
        for k, row in enumerate(yrows):
            items.append(('yield:%d#row%d' % (sd, k), src, ['-O3', '-fyield-support'] + row_args(dict(row, indirect=0))))
    out = ctrace.run_pipeline(chk, items, rng, seed, nwalks=5 if quick else 10, maxlen=20, chunk_mode='some', chunk_limit=2, keep_records=True, cover=6 if quick else 16)
    try:
        groups = collections.defaultdict(list)
        for r in out['records']:
            if r['rec']['status'] == 'ok':
                groups[(r['prog'].src, r['data'], tuple(r['parts']))].append(r)
        ncomp = ndiff = 0
        for key, rs in groups.items():
            if len(rs) < 2:
                continue
            names = trace.rc_names(rs[0]['prog'].m)
            base_obs = observable(rs[0]['rec'], names, False)
            for r in rs[1:]:
                ncomp += 1
                o2 = observable(r['rec'], names, False)
                if o2 != base_obs:
                    ndiff += 1
                    j = next((i for i in range(min(len(o2), len(base_obs))) if o2[i] != base_obs[i]), min(len(o2), len(base_obs)))
                    chk.violation('option sets %s and %s differ at call %d on input %r chunks %s of %s'
                                  % (rs[0]['prog'].args, r['prog'].args, j, r['data'], list(r['parts']), r['prog'].name.split('#')[0]),
                                  dict(ctrace.witness_of(r), other_args=rs[0]['prog'].args,
                                       a=base_obs[j] if j < len(base_obs) else None, b=o2[j] if j < len(o2) else None))
                    break
        chk.coverage = {
            'states': out['stats']['states'], 'transitions': out['stats']['transitions'],
            'traces_validated_against_impl': out['counts']['ACCEPT'], 'samples': ctrace.sample_cases(out, 2) + [{'option_row': rows[0], 'args': row_args(rows[0])}],
            **ctrace.cover_cov(out),
            'programs': len(base), 'option_rows': len(rows), 'binaries': len([p for p in out['progs'] if p.bin]),
            'cross_row_comparisons': ncomp, 'differences': ndiff, 'trace_verdicts': dict(out['counts']),
            'unbuildable': len(out['unbuildable']), 'exhaustive': False,
            'rule': '%d-way covering array over %s' % (2 if quick else 3, sorted(PARAMS)),
        }
        for p in out['unbuildable'][:3]:
            chk.violation('emitted C does not build for %s %s: %s' % (p.name, p.args, p.buildlog[-300:]),
                          {'program': p.name, 'args': p.args, 'source': p.src, 'log': p.buildlog[-2000:]})
    finally:
        shutil.rmtree(out['root'], ignore_errors=True)
    return chk.finish()


def replay(path):
    print(open(path).read()[:4000])
    return 0
