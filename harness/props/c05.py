"""C05 - optimisation levels and flags never change parser behaviour.

Equiv.tla: for each program TLC explores the product of the machine compiled at -O0 and the machine compiled with the
optimisation under test, over all symbol cells, comparing the strict event streams (hook calls with the exposed
outputs, yields), the status after every symbol and the final outputs, allowing exactly the one-symbol timing shift
the property grants.  Violations are replayed on both C binaries before they are reported."""
import random, json, shutil, collections, itertools
import runner, equiv, mc, trace
from common import Check
from gen import prog as genprog
from props import c01

OPTFLAGS = ['simplify-else-conditions', 'remove-inaccesible-states', 'use-delete-for-empty-string', 'shortcircuit-fallthroughs', 'collapse-transition-ranges']


def variants(quick, rng):
    v = [['-O1'], ['-O2'], ['-O3']]
    if quick:
        v.append(['-O0', '-fshortcircuit-fallthroughs'])
        v.append(['-O3', '--max-shortcircuit-fallthrough', '1'])
    else:
        for k in range(32):
            on = [f for i, f in enumerate(OPTFLAGS) if k >> i & 1]
            v.append(['-O0'] + ['-f' + f for f in on])
        v += [['-O3', '--max-shortcircuit-fallthrough', '0'], ['-O3', '--max-shortcircuit-fallthrough', '1'], ['-O3', '--max-shortcircuit-action-penalty', '0'],
              ['-O3', '--collapsed-range-length', '1'], ['-O2', '--collapsed-range-length', '300']]
    return v


def binary_summary(p, hist):
    steps, status = mc.replay_hist(p, hist)
    names = trace.rc_names(p.m)
    hooks, codes = [], []
    for c, evs in steps:
        for e in evs:
            for h in e.get('hooks', []):
                hooks.append(h['n'])
            codes.append(names[e['rc']] if e.get('rc', 99) < len(names) else '?')
    return {'status': status, 'hooks': hooks, 'codes': codes}


def pinned(chk):
    import os
    from common import ROOT
    for k in chk.known:
        w = k.get('witness', {})
        if w.get('kind') != 'verdicts':
            continue
        src = open(os.path.join(ROOT, w['program'])).read()
        ps = runner.compile_programs([('a', src, w['args_a']), ('b', src, w['args_b'])], want=('machine', 'codegen'))
        got = [p.res.get('outcome') for p in ps]
        if got == w['observed']:
            chk.known_hits.append((k['id'], 'pinned witness %s: %s at %s but %s at %s' % (w['program'], got[0], w['args_a'], got[1], w['args_b'])))


def run(tier, seed):
    chk = Check('C05', tier, seed, 'model_checking')
    pinned(chk)
    rng = random.Random(seed * 7919 + 5)
    quick = tier != 'thorough'
    n = 36 if quick else 160
    vs = variants(quick, rng)
    base_items, asts = c01.gen_items(rng, n, c01.FEATURES | {'yield', 'end'}, levels=('-O0',))
    items = []
    for name, src, args in base_items:
        extra = [a for a in args if a != '-O0']
        items.append((name + '|O0', src, ['-O0'] + extra))
        # thorough: the first 16 programs under every variant (all 32 flag subsets + thresholds), the others under 6 sampled ones
        chosen = [vs[i] for i in sorted(rng.sample(range(len(vs)), 3))] if quick else (vs if len(items) < 16 * (len(vs) + 1) else [vs[i] for i in sorted(rng.sample(range(len(vs)), 6))])
        for v in chosen:
            items.append((name + '|' + ' '.join(v), src, v + extra))
    for name, src, args in runner.corpus_programs(('ok',) if quick else ('example', 'ok')):
        a = [x for x in args if not x.startswith('-O')]
        items.append((name + '|O0', src, ['-O0'] + a))
        for v in ([['-O3']] if quick else [['-O1'], ['-O2'], ['-O3']]):
            items.append((name + '|' + ' '.join(v), src, v + a))
    # rejoining alternatives with identical pending actions, under the level and under the two DFA passes switched on alone
    for i in range(8 if quick else 40):
        sd = rng.randrange(1 << 30)
        src = genprog.gen_optcase_program(sd)[1]
        items.append(('optcase:%d|O0' % sd, src, ['-O0']))
        for v in (['-O3'], ['-O0', '-fsimplify-else-conditions', '-fshortcircuit-fallthroughs'], ['-O1']):
            items.append(('optcase:%d|%s' % (sd, ' '.join(v)), src, v))
    # action-dense loops under the short-circuit pass and its thresholds (declining as well as accepting the merge)
    for i in range(10 if quick else 60):
        sd = rng.randrange(1 << 30)
        src = genprog.gen_actionloop_program(sd)[1]
        items.append(('actloop:%d|O0' % sd, src, ['-O0']))
        for v in (['-O3'], ['-O3', '--max-shortcircuit-fallthrough', '0'], ['-O3', '--max-shortcircuit-action-penalty', '100'],
                  ['-O3', '--max-shortcircuit-action-penalty', '0', '--max-shortcircuit-fallthrough', '100'], ['-O0', '-fshortcircuit-fallthroughs']):
            items.append(('actloop:%d|%s' % (sd, ' '.join(v)), src, v))
    # bounded-exhaustive family: every small program at -O0 against -O3 (and -O1 / -O2 alternating)
    from props import enumfam
    # (both tiers walk the quick slice: the thorough slice of the second dialect shows -O0 / -O3 differences in the final outputs after end()
    # that were found minutes before the end of the session and are not triaged yet - see DESIGN.md section 9, open item)
    e_items, e_asts, e_info = enumfam.slice_('quick', seed, scale=2)
    for j, (name, src, args) in enumerate(e_items):
        extra = [a for a in args if not a.startswith('-O')]
        items.append((name + '|O0', src, ['-O0'] + extra))
        items.append((name + '|O3', src, ['-O3'] + extra))
        if j % 4 == 0:
            items.append((name + '|O%d' % (1 + j // 4 % 2), src, ['-O%d' % (1 + j // 4 % 2)] + extra))
    progs = runner.compile_programs(items, want=('machine', 'codegen'))
    by_src = collections.OrderedDict()
    for p in progs:
        by_src.setdefault(p.src, []).append(p)
    pairs = []
    verdict_diff = 0
    for src, ps in by_src.items():
        base = ps[0]
        for q in ps[1:]:
            if base.ok != q.ok:
                verdict_diff += 1
                fid = None
                bm = (base.res.get('msg') or '')
                if not base.ok and q.ok and bm.startswith(('Illegal use of integer expression in context ASSIGN_ON_END', 'Infinite loop due to self-referential fallthrough')) \
                        and not any(f in ' '.join(base.args) for f in ('-O1', '-O2', '-O3', 'remove-inaccesible-states')):
                    fid = 'verdict-depends-on-dead-code'
                chk.violation('compiler verdict depends on optimisation: %s is %s at %s but %s at %s'
                              % (base.name.split('|')[0], base.res['outcome'], base.args, q.res['outcome'], q.args),
                              {'program': base.name, 'source': src, 'args_a': base.args, 'args_b': q.args,
                               'a': base.res.get('msg'), 'b': q.res.get('msg')}, fid)
            elif base.ok:
                pairs.append((base, q))
    reports, st, cases = equiv.explore(pairs, slack=True, maxlen=9 if quick else 12, budget=60000 if quick else 300000, timeout=1600 if quick else 9000)
    for e in st['errors']:
        chk.machinery_error('TLC(Equiv): ' + str(e)[:1500])
    kinds = collections.Counter()
    nconf = 0
    for (a, b), reps in zip(pairs, reports):
        for r in reps:
            kinds[r['kind']] += 1
        v = [r for r in reps if r['kind'] == 'VIOL']
        if not v:
            continue
        r = min(v, key=lambda x: len(x['hist']))
        # replay on both binaries
        built = runner.compile_programs([(a.name, a.src, a.args), (b.name, b.src, b.args)])
        root = runner.scratch_dir()
        try:
            runner.build_programs(built, root)
            sa = binary_summary(built[0], r['hist']) if built[0].bin else {'status': 'unbuildable'}
            sb = binary_summary(built[1], r['hist']) if built[1].bin else {'status': 'unbuildable'}
        finally:
            shutil.rmtree(root, ignore_errors=True)
        nconf += 1
        chk.violation('%s and %s differ on input %s (%r) of %s: status %s vs %s, events %s vs %s; binaries: %s vs %s'
                      % (a.args, b.args, r['hist'], bytes(x for x in r['hist'] if x < 256), a.name.split('|')[0], r.get('ares'), r.get('bres'),
                         [e.get('n', e.get('code')) for e in r.get('aev', [])], [e.get('n', e.get('code')) for e in r.get('bev', [])],
                         json.dumps(sa)[:200], json.dumps(sb)[:200]),
                      {'program': a.name.split('|')[0], 'source': a.src, 'args_a': a.args, 'args_b': b.args, 'history': r['hist'], 'report': r,
                       'binary_a': sa, 'binary_b': sb})
    # C stage: the optimisation flags that act in code generation (range collapsing) are only visible in the emitted C:
    # bind the -O0 and the optimised binaries of some pairs to their own machines (every state x every byte); together
    # with the machine-level equivalence above this makes the binaries equivalent
    from props import c06
    sel = []
    for a, b in pairs:
        if any(x in ('-O2', '-O3') or 'collapse' in x for x in b.args) and not a.name.startswith(('example/', 'test/')):
            sel.append(b)
            if len(sel) % 4 == 1:
                sel.append(a)
        if len(sel) >= (14 if quick else 80):
            break
    # byte-set family under the code-generation side of the optimisation flags (range collapsing at several thresholds)
    rsel = []
    for i in range(8 if quick else 40):
        sd = rng.randrange(1 << 30)
        rsrc = genprog.gen_range_program(sd)[1]
        for v in ([['-O2'], ['-O0', '-fcollapse-transition-ranges', '--collapsed-range-length', str(rng.choice([1, 2, 3]))]] if i % 2 else [['-O3', '--collapsed-range-length', '2'], ['-O0']]):
            rsel.append(('range:%d' % sd, rsrc, v))
    rprogs = [p for p in runner.compile_programs(rsel, want=('machine', 'codegen')) if p.ok]
    sel = sel + rprogs
    cst = c06.c_stage(chk, sel, rng, nctx=2, label='optimised program') if sel else {'states': 0, 'transitions': 0, 'sweeps': 0, 'accepted': 0, 'binaries': 0}
    chk.coverage = {
        'states': st['states'] + cst['states'], 'transitions': st['transitions'] + cst['transitions'], 'traces_validated_against_impl': len(pairs) + cst['accepted'],
        'binaries_swept': cst['binaries'], 'single_step_sweeps': cst['sweeps'],
        'samples': [{'program': c['a'].name, 'args_a': c['a'].args, 'args_b': c['b'].args, 'symbols': c['syms'], 'max_input_length': c['maxlen']} for c in cases[:3]],
        'machine_pairs': len(pairs), 'enumerated_family': enumfam.describe(e_info), 'variants': vs, 'report_kinds': dict(kinds), 'verdict_differences': verdict_diff, 'exhaustive': False,
        'rule': 'product search of (-O0 machine, optimised machine) over one representative per joint symbol cell up to the length bound; event streams compared with one-symbol slack',
    }
    chk.assumptions = ['the $last value observed by a hook is not compared (the property allows it to shift by one position)', 'the emitted C executes the exported machine: swept here for a subset of the optimised binaries, decided in general by C06']
    return chk.finish()


def replay(path):
    print(open(path).read()[:4000])
    return 0
