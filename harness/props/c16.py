"""C16 - wait never fails and stops at the first restart-semantics match.

Conform.tla on generated wait programs (bare, inside try blocks, in loops, under foreach): the Lang wait frame is the
restart automaton built from derivatives (a mismatch abandons the partial match and re-dispatches the symbol at the
pattern start, where it is skipped if it cannot start the pattern); the Lang never raises an error inside a wait, so a
machine that enters a handler or FAILs there - on any byte or on end-of-input - has no explanation."""
import random
import runner
from common import Check
from gen import prog as genprog
from props import c01


def run(tier, seed):
    chk = Check('C16', tier, seed, 'model_checking')
    rng = random.Random(seed * 7919 + 16)
    quick = tier != 'thorough'
    items, asts = [], []
    for i in range(280 if quick else 700):
        s = rng.randrange(1 << 30)
        ast, src = genprog.gen_wait_program(s)
        items.append(('wait:%d' % s, src, [rng.choice(['-O0', '-O1', '-O2', '-O3', '-O3']), '-feof-support']))
        asts.append(ast)
    # general programs that use wait among other constructs
    g_items, g_asts = c01.gen_items(rng, 70 if quick else 180, {'str', 'int', 'hook', 'regex', 'case', 'opt', 'loop', 'try', 'wait', 'if', 'condact', 'idiom', 'end'})
    items += g_items
    asts += g_asts
    progs = runner.compile_programs(items, want=('machine', 'codegen'))
    pairs = [(p, a) for p, a in zip(progs, asts) if p.ok and 'wait' in p.src]
    st, kinds, cases = c01.run_conform(chk, pairs, 9 if quick else 13, 1600 if quick else 9000, 'wait')
    from props import c06
    cs = c06.c_stage(chk, [p for p, a in pairs][::4 if quick else 2], rng, 2, 'wait program')
    chk.coverage = {
        'states': st['states'] + cs['states'], 'transitions': st['transitions'] + cs['transitions'], 'traces_validated_against_impl': len(pairs) + cs['accepted'],
        'c_stage': cs,
        'samples': [{'source': c['p'].src, 'args': c['p'].args, 'symbols': c['syms']} for c in cases[:2]],
        'programs_accepted': len(pairs), 'programs_generated': len(items), 'report_kinds': dict(kinds), 'exhaustive': False,
        'rule': 'wait patterns: literal, case-insensitive, regex with loops, concatenation; bare / in try / in loop / under foreach; all symbol cells and end-of-input',
    }
    return chk.finish()


def replay(path):
    print(open(path).read()[:4000])
    return 0
