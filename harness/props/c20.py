"""C20 - compilation is a pure function of source and options.

A history is a sequence of compile calls; the specification keeps, per (source, options), the first verdict and machine
and accepts a later call iff its verdict is the same and its machine is observationally equivalent - decided by TLC
(Equiv.tla, no slack) as a bisimulation up to renaming of states, never by comparing emitted text (state order follows
set iteration).  Histories explored for every program: alone in a fresh process with PYTHONHASHSEED=0; fresh processes
with other hash seeds; after several unrelated compilations in the same process; twice in a row; with garbage objects
allocated in between (perturbed addresses)."""
import random, collections, json
import runner, compiler, equiv
from common import Check
from gen import prog as genprog
from props import c01


def gen_same_name_program(seed):
    """a hook and a macro with the same name: the reference says the macro takes priority"""
    r = random.Random(seed)
    src = ('out int n = 0;\nhook ping;\nhook pong;\nmacro ping() {\n    n = [n + %d];\n    pong();\n}\nparser {\n    "%s";\n    ping();\n    "%s";\n}\n'
           % (r.randint(1, 9), r.choice('ab'), r.choice('cd')))
    return src


def run(tier, seed):
    chk = Check('C20', tier, seed, 'model_checking')
    rng = random.Random(seed * 7919 + 20)
    quick = tier != 'thorough'
    items, asts = c01.gen_items(rng, 60 if quick else 150, c01.FEATURES | {'yield', 'end'})
    for i in range(20 if quick else 50):
        s = rng.randrange(1 << 30)
        ast, src = genprog.gen_case_program(s, False)
        items.append(('case:%d' % s, src, ['-O1']))
    for i in range(3 if quick else 10):
        items.append(('samename:%d' % i, gen_same_name_program(rng.randrange(1 << 30)), ['-O1']))
    for i in range(30 if quick else 70):
        s = rng.randrange(1 << 30)
        items.append(('tie:%d' % s, genprog.gen_greedy_tie_program(s)[1], ['-O1']))
    for n, s, a in runner.corpus_programs(('ok',)):
        if quick and len(items) > 70:
            break
        items.append((n, s, list(a) or ['-O1']))
    jobs_base = [{'id': i, 'src': s, 'args': a, 'name': 'p', 'want': ['machine', 'codegen']} for i, (n, s, a) in enumerate(items)]
    # history variants
    base = compiler.run_jobs(jobs_base, nworkers=12, fresh_each=True, env_extra={'PYTHONHASHSEED': '0'})
    variants = {}
    for hs in (['1', '12345'] if quick else ['1', '2', '3', '7', '12345', 'random']):
        variants['hashseed=' + hs] = compiler.run_jobs(jobs_base, nworkers=12, fresh_each=True, env_extra={'PYTHONHASHSEED': hs})
    others = [{'src': s, 'args': a} for (n, s, a) in items]
    jobs_hist = []
    for j in jobs_base:
        pre = [others[k] for k in rng.sample(range(len(others)), min(4, len(others)))]
        jobs_hist.append(dict(j, pre=pre, garbage=rng.choice([0, 1000, 50000]), repeat=1))
    variants['after-history'] = compiler.run_jobs(jobs_hist, nworkers=8, env_extra={'PYTHONHASHSEED': '0'})
    # one long-lived process compiling everything in sequence
    variants['one-process'] = compiler.run_jobs([dict(j, garbage=777) for j in jobs_base], nworkers=1, env_extra={'PYTHONHASHSEED': '5'}, timeout=120)

    class P:      # minimal Prog-like wrapper for equiv.explore
        def __init__(self, name, src, args, res):
            self.name, self.src, self.args, self.res = name, src, args, res
            self.m = res.get('machine')
            self.flags = res.get('flags')

        def mtla(self):
            import tlagen
            if not hasattr(self, '_t'):
                self._t = tlagen.machine_tla(self.m, self.flags)
            return self._t

    pairs = []
    meta = []
    nver = 0
    for i, (n, s, a) in enumerate(items):
        b = base[i]
        cands = []
        for vn, vr in variants.items():
            r = vr[i]
            cands.append((vn, r))
            if 'repeat_1' in r:
                cands.append((vn + '/second', dict(r['repeat_1'], flags=r.get('flags'))))
        for vn, r in cands:
            nver += 1
            if (r.get('outcome'), r.get('errclass')) != (b.get('outcome'), b.get('errclass')):
                chk.violation('verdict of %s depends on the history (%s): %s/%s vs %s/%s' % (n, vn, b.get('outcome'), b.get('errclass'), r.get('outcome'), r.get('errclass')),
                              {'program': n, 'source': s, 'args': a, 'variant': vn, 'base': {k: b.get(k) for k in ('outcome', 'errclass', 'msg')},
                               'other': {k: r.get(k) for k in ('outcome', 'errclass', 'msg')}})
            elif b.get('outcome') == 'code' and r.get('machine') is not None:
                r2 = dict(r)
                r2.setdefault('flags', b.get('flags'))
                pairs.append((P(n, s, a, b), P(n + '@' + vn, s, a, r2)))
                meta.append(vn)
    reports, st, cases = equiv.explore(pairs, slack=False, maxlen=8 if quick else 12, budget=20000 if quick else 300000, timeout=2000 if quick else 9000)
    for e in st['errors']:
        chk.machinery_error('TLC(Equiv): ' + str(e)[:1500])
    kinds = collections.Counter()
    for (a_, b_), reps, vn in zip(pairs, reports, meta):
        for r in reps:
            kinds[r['kind']] += 1
        v = [r for r in reps if r['kind'] == 'VIOL']
        if v:
            r = min(v, key=lambda x: len(x['hist']))
            chk.violation('two compilations of the same input are not equivalent (%s) on input %s: status %s vs %s for %s %s' % (vn, r['hist'], r.get('ares'), r.get('bres'), a_.name, a_.args),
                          {'program': a_.name, 'source': a_.src, 'args': a_.args, 'variant': vn, 'history': r['hist'], 'report': r})
    # the emitted C of compilations with a history: one long-lived process compiles loops with conditional breaks, cases and general
    # programs one after the other (garbage in between); every binary built from *that* text is bound to the machine exported by the same
    # call - every state x every byte, and the specification-guided inputs as one chunk (a jump that depends on what was compiled before
    # shows inside a chunk)
    from props import c06
    hitems = []
    for i in range(14 if quick else 40):
        sd = rng.randrange(1 << 30)
        # (a large plain program first: a compiler that remembers things by address has many addresses to remember afterwards)
        hitems.append(('filler:%d' % i, 'parser { "' + 'abcdefghij' * rng.choice([5, 20, 50, 90]) + '"; }\n', ['-O1']))
        hitems.append(('hist-brk:%d' % sd, genprog.gen_break_program(sd)[1], [rng.choice(['-O1', '-O2', '-O3'])]))
        if i % 3 == 0:
            hitems.append(('hist-case:%d' % sd, genprog.gen_case_program(sd, False)[1], ['-O1']))
    hjobs = [{'id': i, 'src': s_, 'args': a_, 'name': 'p', 'want': ['machine', 'c'], 'garbage': [0, 500, 20000][i % 3]} for i, (n_, s_, a_) in enumerate(hitems)]
    hres = compiler.run_jobs(hjobs, nworkers=1, env_extra={'PYTHONHASHSEED': '3'}, timeout=120)
    hprogs = []
    for i, (n_, s_, a_) in enumerate(hitems):
        q = runner.Prog(i, n_, s_, a_)
        q.res = hres[i]
        if q.ok and q.res.get('c') and not n_.startswith('filler'):
            hprogs.append(q)
    hcs = c06.c_stage(chk, hprogs, rng, 1, 'program compiled late in a long-lived process', prebuilt=True) if hprogs else {'states': 0, 'transitions': 0, 'sweeps': 0, 'accepted': 0, 'binaries': 0}
    chk.coverage = {
        'emitted_c_of_compilations_with_history': hcs,
        'states': st['states'] + hcs['states'], 'transitions': st['transitions'] + hcs['transitions'], 'traces_validated_against_impl': len(pairs) + hcs['accepted'],
        'samples': [{'program': items[0][0], 'args': items[0][2], 'variants': list(variants)}],
        'programs': len(items), 'compile_calls': len(items) * (1 + len(variants)) + len(items), 'verdict_comparisons': nver, 'machine_pairs': len(pairs),
        'equiv_reports': dict(kinds), 'exhaustive': False,
        'rule': 'each program: fresh process seed 0 (reference) vs other hash seeds, vs after 4 unrelated compilations + garbage + repeated, vs one long-lived process; machines compared by exhaustive bisimulation up to the length bound',
    }
    return chk.finish()


def replay(path):
    print(open(path).read()[:4000])
    return 0
