"""C15 - literals denote exactly the bytes and values they spell.

The generator chooses byte strings and values and *spells* them (escapes \\n \\r \\t \\b \\0 \\" \\\\ \\xHH, raw printable characters,
hex-pair binary strings, character constants, decimal / 0x / 0b integers); the Lang program keeps the intended bytes.
Conform.tla then decides, through the real front end and compiler, that literal matches accept exactly those bytes
(either case of ASCII letters for the case-insensitive form) and fail at the first differing byte, and that assignments,
defaults and constants hold exactly those bytes / values at every hook and at the end; single-step sweeps bind the emitted
C (where string literals are re-escaped into C) to the machine over all 256 bytes."""
import random
import runner
from common import Check
from gen import prog as genprog
from props import c01, c06


def single_byte_programs():
    """every byte 0..255 in each spelling position (match, casei match, binary match, assignment, default)"""
    items, asts = [], []
    for lo in range(0, 256, 8):
        bs = list(range(lo, lo + 8))
        outs = [{'name': 's', 'type': 'str', 'size': 9, 'term': True, 'default': bs[:4]},
                {'name': 'u', 'type': 'str', 'size': 8, 'term': False, 'default': None}]
        body = [{'t': 'case', 'greedy': False, 'cl': [
            {'ps': [{'k': 'str', 'bytes': [120]}], 'prio': 0, 'b': [{'t': 'match', 'm': {'k': 'str', 'bytes': bs}}, {'t': 'hook', 'n': 'h'}]},
            {'ps': [{'k': 'str', 'bytes': [121]}], 'prio': 0, 'b': [{'t': 'match', 'm': {'k': 'stri', 'bytes': bs}}, {'t': 'hook', 'n': 'h'}]},
            {'ps': [{'k': 'str', 'bytes': [122]}], 'prio': 0, 'b': [{'t': 'match', 'm': {'k': 'bin', 'bytes': bs}}, {'t': 'hook', 'n': 'h'}]},
            {'ps': [{'k': 'str', 'bytes': [119]}], 'prio': 0, 'b': [{'t': 'setstr', 'var': 's', 'bytes': bs}, {'t': 'setstr', 'var': 'u', 'bytes': bs[::-1]}, {'t': 'hook', 'n': 'h'},
                                                                     {'t': 'match', 'm': {'k': 'str', 'bytes': [33]}}]}]}]
        p = genprog._mk(outs, ['h'], [], [], body)
        items.append(('bytes:%02x' % lo, genprog.spell_program(p), ['-O1']))
        asts.append(p)
    return items, asts


def run(tier, seed):
    chk = Check('C15', tier, seed, 'model_checking')
    rng = random.Random(seed * 7919 + 15)
    quick = tier != 'thorough'
    items, asts = single_byte_programs()
    for i in range(240 if quick else 700):
        s = rng.randrange(1 << 30)
        ast, src = genprog.gen_literal_program(s)
        items.append(('lit:%d' % s, src, [rng.choice(['-O1', '-O2', '-O3'])] + (['-fstrings-as-u8'] if i % 3 == 0 else [])))
        asts.append(ast)
    progs = runner.compile_programs(items, want=('machine', 'codegen'))
    for p in progs:
        if not p.ok:
            chk.violation('a program consisting of valid literals is not compiled: %s (%s)' % (p.res['outcome'], (p.res.get('msg') or '')[:200]),
                          {'program': p.name, 'source': p.src, 'args': p.args, 'outcome': p.res['outcome'], 'msg': p.res.get('msg'), 'tb': p.res.get('tb')})
    pairs = [(p, a) for p, a in zip(progs, asts) if p.ok]
    st, kinds, cases = c01.run_conform(chk, pairs, 10 if quick else 12, 1600 if quick else 9000, 'literals')
    cs = c06.c_stage(chk, [p for p, a in pairs][::(2 if quick else 1)], rng, 1, 'literal program')
    chk.coverage = {
        'states': st['states'] + cs['states'], 'transitions': st['transitions'] + cs['transitions'],
        'traces_validated_against_impl': len(pairs) + cs['accepted'], 'c_stage': cs,
        'samples': [{'source': c['p'].src, 'args': c['p'].args} for c in cases[32:34]],
        'programs_accepted': len(pairs), 'programs_generated': len(items), 'report_kinds': dict(kinds), 'exhaustive': False,
        'rule': 'every byte 0..255 in match / casei match / binary match / assignment / default position (32 programs of 8 bytes) + random multi-byte literals, char constants and integer literals in all radices',
    }
    return chk.finish()


def replay(path):
    print(open(path).read()[:4000])
    return 0
