"""C02 - the parsing result is independent of how the input is chunked.

Every recorded run of one (program, input) under every chunking is validated by TLC against the same deterministic,
byte-at-a-time machine specification (ApiTrace): the specification has exactly one behaviour per input, so acceptance
of all chunkings implies identical observables.  The harness additionally compares the chunking-independent summary
(hook sequence with snapshots, yield/finish codes with absolute offsets, final outputs) across the chunkings directly,
which also covers runs whose arithmetic leaves the modelled range."""
import random, json, shutil, collections
import runner, trace
from common import Check
from props import ctrace
from gen import prog as genprog

FEATURES = {'str', 'int', 'bool', 'enum', 'hook', 'loop', 'case', 'greedy', 'opt', 'try', 'foreach', 'if', 'wait', 'finish', 'yield',
            'regex', 'stri', 'appendc', 'setstr', 'delete', 'idx', 'condact', 'idiom'}


def run(tier, seed):
    chk = Check('C02', tier, seed, 'model_checking')
    rng = random.Random(seed * 7919 + 2)
    quick = tier != 'thorough'
    ngen = 40 if quick else 200
    items = []
    for name, src, args in runner.corpus_programs(('example', 'ok')):
        items.append((name + '|direct', src, list(args)))
        items.append((name + '|indirect', src, list(args) + ['-findirect-start-ptr']))
    for i in range(ngen):
        s = rng.randrange(1 << 30)
        use_yield = rng.random() < 0.5
        feats = FEATURES if use_yield else FEATURES - {'yield'}
        p, src = genprog.generate(s, feats, maxdepth=2, maxstmts=3)
        lvl = rng.choice(['-O0', '-O1', '-O2', '-O3'])
        if use_yield:
            items.append(('gen:%d|yield' % s, src, [lvl, '-fyield-support']))
        else:
            items.append(('gen:%d|direct' % s, src, [lvl]))
            items.append(('gen:%d|indirect' % s, src, [lvl, '-findirect-start-ptr']))

    for i in range(10 if quick else 50):
        s = rng.randrange(1 << 30)
        src = genprog.gen_break_program(s)[1]
        lvl = rng.choice(['-O0', '-O1', '-O2', '-O3'])
        items.append(('brk:%d|direct' % s, src, [lvl]))
        items.append(('brk:%d|indirect' % s, src, [lvl, '-findirect-start-ptr']))

    def extra_inputs(p):
        # two longer inputs for the adversarial splits (every cut point, all ones, random)
        return runner.walk_inputs(p, 2, 40, rng)

    out = ctrace.run_pipeline(chk, items, rng, seed, nwalks=4 if quick else 8, maxlen=8 if quick else 10, chunk_mode='all',
                              chunk_limit=40 if quick else 160, extra_inputs=extra_inputs, keep_records=True, cover=10 if quick else 16)
    try:
        # direct comparison of chunking-independent summaries
        groups = collections.defaultdict(list)
        for r in out['records']:
            if r['rec']['status'] == 'ok':
                groups[(r['prog'].pid, r['data'])].append(r)
        ngroups = ndiff = 0
        for (pid, data), rs in groups.items():
            if len(rs) < 2:
                continue
            ngroups += 1
            names = trace.rc_names(rs[0]['prog'].m)
            base = ctrace.summarize_outcome(rs[0]['rec'], names)
            for r in rs[1:]:
                s2 = ctrace.summarize_outcome(r['rec'], names)
                if s2 != base:
                    ndiff += 1
                    which = [k for k in base if base[k] != s2[k]]
                    chk.violation('chunkings %s and %s of input %r give different %s for %s %s'
                                  % (rs[0]['parts'], list(r['parts']), data, which, r['prog'].name, r['prog'].args),
                                  dict(ctrace.witness_of(r), other_chunks=list(rs[0]['parts']), differs=which,
                                       a={k: base[k] for k in which}, b={k: s2[k] for k in which}))
                    break
        nparts = collections.Counter(len(r['parts']) for r in out['records'])
        chk.coverage = {
            'states': out['stats']['states'], 'transitions': out['stats']['transitions'],
            'traces_validated_against_impl': out['counts']['ACCEPT'],
            **ctrace.cover_cov(out),
            'samples': ctrace.sample_cases(out, 3),
            'programs': len([p for p in out['progs'] if p.bin]), 'inputs_with_several_chunkings': ngroups,
            'chunkings_recorded': sum(len(v) for v in groups.values()), 'max_chunks_in_a_run': max(nparts) if nparts else 0,
            'trace_verdicts': dict(out['counts']), 'summary_differences': ndiff, 'exhaustive': False,
            'rule': 'inputs of length <= %d: all 2^(n-1) compositions (sampled above the limit); longer inputs: whole, all ones, every single cut point, random splits' % (8 if quick else 10),
        }
        chk.assumptions = ['the specification is byte-at-a-time and deterministic, hence chunk-independent by construction',
                           'direct-pointer builds expose no consumed count; offsets are compared for indirect / yield builds']
    finally:
        shutil.rmtree(out['root'], ignore_errors=True)
    return chk.finish()


def replay(path):
    print(open(path).read()[:4000])
    return 0
