"""C18 - the compiler always terminates with code or a diagnosed error.

Every compile call of this run (an edge-case catalogue that breaks one static rule at a time, random mutations of
well-formed generated programs, every generator family of the other checks, the repository corpus) is recorded as an event
[source id, outcome, must-be-diagnosed] and validated by TLC against CompileTrace.tla, whose alphabet of outcomes is
{code, diagnosed error with a renderable message} - and {diagnosed} alone where the static rules require a diagnosis.
Internal exceptions, errors whose message cannot be rendered and time-outs are not in the alphabet."""
import random, collections, json
import runner, compiler, tlc
from common import Check
from gen import prog as genprog, edge
from props import c01
from tlagen import tla


def classify(res):
    o = res.get('outcome')
    if o == 'code':
        return 'code'
    if o in ('parse_error', 'compile_error', 'codegen_error', 'syntax_error'):
        return 'diagnosed'
    if o == 'timeout':
        return 'timeout'
    return 'internal'


def known_class(res):
    """map an internal exception to the id of a recorded known finding (by exception site), if any"""
    msg = (res.get('msg') or '') + ' ' + (res.get('tb') or '')
    table = [
        ("'NoneType' object has no attribute 'convert'", 'crash-empty-block'),
        ("'NoneType' object has no attribute 'error_handling'", 'crash-append-after-none'),
        ("is not in list", 'crash-removed-override-target'),
        ("'tuple' object has no attribute 'extend'", 'crash-tuple-extend'),
        ("'NoneType' object has no attribute 'get_next'", 'crash-empty-block'),
    ]
    for pat, fid in table:
        if pat in msg:
            return fid
    return None


def run(tier, seed):
    chk = Check('C18', tier, seed, 'exploration')
    rng = random.Random(seed * 7919 + 18)
    quick = tier != 'thorough'
    items = edge.edge_programs(rng, 300 if quick else 1500)
    items += edge.cross_programs(rng, 450 if quick else None)
    g_items, _ = c01.gen_items(rng, 300 if quick else 1200, c01.FEATURES | {'yield', 'end', 'raw'})
    items += [(n, s, a, False) for n, s, a in g_items]
    for fam, fn in (('case', lambda s: genprog.gen_case_program(s, False)[1]), ('wait', lambda s: genprog.gen_wait_program(s)[1]),
                    ('zp', lambda s: genprog.gen_zp_program(s)[1]), ('pair', lambda s: genprog.gen_pair_program(s)[1]),
                    ('expr', lambda s: genprog.gen_expr_program(s, wide=True)[1]), ('macro', lambda s: genprog.gen_macro_program(s)[1])):
        for i in range(40 if quick else 160):
            s = rng.randrange(1 << 30)
            items.append(('%s:%d' % (fam, s), fn(s), ['-O1'], False))
    for n, s, a in runner.corpus_programs(('example', 'ok', 'fail')):
        items.append((n, s, list(a) or ['-O3'], n.endswith('.fail.nmfu')))
    jobs = [{'id': i, 'src': s, 'args': a, 'name': 'p', 'want': ['codegen']} for i, (n, s, a, must) in enumerate(items)]
    res = compiler.run_jobs(jobs, nworkers=14, timeout=240)
    events = []
    for i, (n, s, a, must) in enumerate(items):
        events.append({'src': i, 'outcome': classify(res[i]), 'must': bool(must)})
    # TLC validates the recorded events
    mod = '---- MODULE CasesData ----\nEXTENDS Integers, Sequences, TLC\nMachines == <<>>\nCases == %s\n====\n' % tla(events)
    r = tlc.run_tlc('CompileTrace', 'SPECIFICATION Spec\nCHECK_DEADLOCK FALSE\n', {'CasesData': mod}, workers=8, timeout=600)
    if not r.ok:
        chk.machinery_error('TLC(CompileTrace): ' + (r.error or r.stdout[-1000:]))
    rejected = sorted(set(x['cid'] - 1 for x in r.reports if x.get('kind') == 'REJECT'))
    classes = collections.Counter(e['outcome'] for e in events)
    reported = set()
    for i in rejected:
        n, s, a, must = items[i]
        o = res[i]
        what = ('%s: %s %s' % (events[i]['outcome'], o.get('errclass'), (o.get('msg') or '')[:160])) if events[i]['outcome'] != 'code' else 'accepted although the static rules require a diagnosis'
        fid = known_class(o) if events[i]['outcome'] == 'internal' else None
        if n.startswith('edge:'):
            fid = fid or ('edge:' + n.split(':', 1)[1])
        key = (events[i]['outcome'], o.get('errclass'), (o.get('msg') or '')[:60])
        if key in reported and not n.startswith('edge:'):
            continue
        reported.add(key)
        chk.violation('compile call outside the specified outcomes for %s %s: %s' % (n, a, what),
                      {'program': n, 'source': s, 'args': a, 'outcome': o.get('outcome'), 'errclass': o.get('errclass'), 'msg': o.get('msg'), 'traceback': o.get('tb')}, fid)
    chk.coverage = {
        'evaluations': len(items), 'distinct_nontrivial': len(set(s for n, s, a, m in items)),
        'rule': 'edge-case catalogue (%d one-rule-at-a-time sources) + random mutations of generated programs + all generator families + corpus; distinct = distinct source texts' % len(edge.SNIPPETS),
        'samples': [{'name': items[i][0], 'source': items[i][1], 'outcome': events[i]['outcome']} for i in (0, 5, len(edge.SNIPPETS) + 3)],
        'outcome_classes': dict(classes), 'rejected_events': len(rejected), 'states': r.distinct,
    }
    chk.assumptions = ['per-compilation time limit 240 s', 'sources come from generators and a catalogue, not from the whole grammar']
    return chk.finish()


def replay(path):
    print(open(path).read()[:4000])
    return 0
