"""C18 - the compiler always terminates with code or a diagnosed error.

Every compile call of this run (an edge-case catalogue that breaks one static rule at a time, random mutations of
well-formed generated programs, every generator family of the other checks, the repository corpus) is recorded as an event
[source id, outcome, must-be-diagnosed] and validated by TLC against CompileTrace.tla, whose alphabet of outcomes is
{code, diagnosed error with a renderable message} - and {diagnosed} alone where the static rules require a diagnosis.
Internal exceptions, errors whose message cannot be rendered and time-outs are not in the alphabet."""
import random, collections, json
import runner, compiler, tlc
from common import Check
from gen import prog as genprog, edge
from props import c01
from tlagen import tla


def classify(res):
    o = res.get('outcome')
    if o == 'code':
        return 'code'
    if o in ('parse_error', 'compile_error', 'codegen_error', 'syntax_error', 'cli_error'):
        return 'diagnosed'
    if o == 'timeout':
        return 'timeout'
    return 'internal'


def known_class(res):
    """map an internal exception to the id of a recorded known finding (by exception site), if any"""
    msg = (res.get('msg') or '') + ' ' + (res.get('tb') or '')
    table = [
        ("'NoneType' object has no attribute 'convert'", 'crash-empty-block'),
        ("'NoneType' object has no attribute 'error_handling'", 'crash-append-after-none'),
        ("is not in list", 'crash-removed-override-target'),
        ("'tuple' object has no attribute 'extend'", 'crash-tuple-extend'),
        ("'NoneType' object has no attribute 'get_next'", 'crash-empty-block'),
    ]
    for pat, fid in table:
        if pat in msg:
            return fid
    return None


OPT_PROGRAMS = [
    ('opt:plain', 'parser {\n    "ab";\n    /c+/;\n    "d";\n}\n'),
    ('opt:string', 'out str[4] s = "q";\nout int n;\nhook h;\nfinishcode F;\nparser {\n    loop {\n        try {\n            s += /[a-c]+/;\n            ";";\n            h();\n        }\n'
                   '        catch (outofspace) {\n            delete s;\n            wait ";";\n        }\n        n = [s.len + s[0]];\n        if n > 200 {\n            finish F;\n        }\n    }\n}\n'),
]


def flag_names():
    """flag names as the compiler's own --help-all prints them (no internals are imported)"""
    import subprocess, sys, re
    out = subprocess.run([sys.executable, compiler.REPO + '/nmfu.py', '--help-all'], capture_output=True, text=True, timeout=60).stdout
    names, on = [], False
    for ln in out.splitlines():
        if ln.strip() in ('Flags:', 'Optimization Flags:'):
            on = True
            continue
        if on:
            m = re.match(r'^  ([a-z0-9][a-z0-9-]+)(\s|$)', ln)
            if m:
                names.append(m.group(1))
            elif ln.strip() and not ln.startswith('  '):
                on = False
    return names


def option_catalogue(rng, quick):
    """option sets: every flag alone (on / off), every ordered pair of code-generation flags in the combinations on-off and on-on (an
    enabled flag whose implied flag is explicitly disabled, both members of an exclusive pair, ...), levels, generation options with
    boundary values.  Legal sets must give code, contradictory ones a diagnosis - never an exception, never a hang."""
    names = flag_names()
    gen = [n for n in names if not n.startswith(('verbose-', 'debug-'))]
    sets = [[]]
    for n in names:
        sets.append(['-f' + n])
        sets.append(['-fno-' + n])
    pairs = []
    for a in gen:
        for b in gen:
            if a != b:
                pairs.append(['-f' + a, '-fno-' + b])
                pairs.append(['-fno-' + b, '-f' + a])
                if a < b:
                    pairs.append(['-f' + a, '-f' + b])
                    pairs.append(['--flag', a + '=yes', '--flag', b + '=no'])
    rng.shuffle(pairs)
    sets += pairs[:260] if quick else pairs
    for lv in ('-O0', '-O1', '-O2', '-O3'):
        sets.append([lv, '-fyield-support', '-feof-support'])
    for opt in ('--collapsed-range-length', '--max-shortcircuit-fallthrough', '--max-shortcircuit-action-penalty'):
        for v in ('0', '1', '-1', '1000000', 'x', ''):
            sets.append(['-O3', opt, v])
    triples = []
    for i in range(60 if quick else 1500):
        k = rng.sample(gen, 3)
        triples.append([rng.choice(['-f', '-fno-']) + x for x in k] + [rng.choice(['-O0', '-O2', '-O3'])])
    sets += triples
    items = []
    for i, a in enumerate(sets):
        n, src = OPT_PROGRAMS[i % len(OPT_PROGRAMS)]
        items.append(('%s:%d' % (n, i), src, a, False))
        if not quick:
            n2, src2 = OPT_PROGRAMS[(i + 1) % len(OPT_PROGRAMS)]
            items.append(('%s:%d' % (n2, i), src2, a, False))
    return items


def run(tier, seed):
    chk = Check('C18', tier, seed, 'exploration')
    rng = random.Random(seed * 7919 + 18)
    quick = tier != 'thorough'
    items = edge.edge_programs(rng, 300 if quick else 1500)
    items += edge.cross_programs(rng, 450 if quick else None)
    g_items, _ = c01.gen_items(rng, 300 if quick else 1200, c01.FEATURES | {'yield', 'end', 'raw'})
    items += [(n, s, a, False) for n, s, a in g_items]
    for fam, fn in (('case', lambda s: genprog.gen_case_program(s, False)[1]), ('wait', lambda s: genprog.gen_wait_program(s)[1]),
                    ('zp', lambda s: genprog.gen_zp_program(s)[1]), ('pair', lambda s: genprog.gen_pair_program(s)[1]),
                    ('expr', lambda s: genprog.gen_expr_program(s, wide=True)[1]), ('macro', lambda s: genprog.gen_macro_program(s)[1])):
        for i in range(40 if quick else 160):
            s = rng.randrange(1 << 30)
            items.append(('%s:%d' % (fam, s), fn(s), ['-O1'], False))
    opt_items = option_catalogue(rng, quick)
    items += opt_items
    # bounded-exhaustive statement programs (gen/enumprog.py): quick walks a strided slice whose offset rotates with the seed
    from gen import enumprog
    stride = 9 if quick else 1
    n_enum = 0
    for idx, name, ast, src, args in enumprog.programs(3, stride=stride, offset=seed):
        items.append((name, src, args, False))
        n_enum += 1
    for idx, name, ast, src, args in enumprog.programs(4, stride=4001 if quick else 53, offset=seed, minsize=4):
        items.append((name, src, args, False))
        n_enum += 1
    for idx, name, ast, src, args in enumprog.programs2(3, stride=stride, offset=seed):
        items.append((name, src, args, False))
        n_enum += 1
    for idx, name, ast, src, args in enumprog.programs2(4, stride=4001 if quick else 53, offset=seed, minsize=4):
        items.append((name, src, args, False))
        n_enum += 1
    for n, s, a in runner.corpus_programs(('example', 'ok', 'fail')):
        items.append((n, s, list(a) or ['-O3'], n.endswith('.fail.nmfu')))
    jobs = [{'id': i, 'src': s, 'args': a, 'name': 'p', 'want': ['codegen']} for i, (n, s, a, must) in enumerate(items)]
    res = compiler.run_jobs(jobs, nworkers=14, timeout=240)
    events = []
    for i, (n, s, a, must) in enumerate(items):
        events.append({'src': i, 'outcome': classify(res[i]), 'must': bool(must)})
    # TLC validates the recorded events
    mod = '---- MODULE CasesData ----\nEXTENDS Integers, Sequences, TLC\nMachines == <<>>\nCases == %s\n====\n' % tla(events)
    r = tlc.run_tlc('CompileTrace', 'SPECIFICATION Spec\nCHECK_DEADLOCK FALSE\n', {'CasesData': mod}, workers=8, timeout=600)
    if not r.ok:
        chk.machinery_error('TLC(CompileTrace): ' + (r.error or r.stdout[-1000:]))
    rejected = sorted(set(x['cid'] - 1 for x in r.reports if x.get('kind') == 'REJECT'))
    classes = collections.Counter(e['outcome'] for e in events)
    reported = set()
    for i in rejected:
        n, s, a, must = items[i]
        o = res[i]
        what = ('%s: %s %s' % (events[i]['outcome'], o.get('errclass'), (o.get('msg') or '')[:160])) if events[i]['outcome'] != 'code' else 'accepted although the static rules require a diagnosis'
        fid = known_class(o) if events[i]['outcome'] == 'internal' else None
        if n.startswith('edge:'):
            fid = fid or ('edge:' + n.split(':', 1)[1])
        key = (events[i]['outcome'], o.get('errclass'), (o.get('msg') or '')[:60])
        if key in reported and not n.startswith('edge:'):
            continue
        reported.add(key)
        chk.violation('compile call outside the specified outcomes for %s %s: %s' % (n, a, what),
                      {'program': n, 'source': s, 'args': a, 'outcome': o.get('outcome'), 'errclass': o.get('errclass'), 'msg': o.get('msg'), 'traceback': o.get('tb')}, fid)
    chk.coverage = {
        'evaluations': len(items), 'distinct_nontrivial': len(set(s for n, s, a, m in items)),
        'rule': 'edge-case catalogue (%d one-rule-at-a-time sources) + random mutations of generated programs + all generator families + corpus; distinct = distinct source texts' % len(edge.SNIPPETS),
        'samples': [{'name': items[i][0], 'source': items[i][1], 'outcome': events[i]['outcome']} for i in (0, 5, len(edge.SNIPPETS) + 3)],
        'option_sets': len(opt_items), 'enumerated_programs': n_enum,
        'enumeration': 'all statement programs of size <= 3 of the grammar in gen/enumprog.py (%s) + a strided slice of size 4' % ('every 9th, offset = seed' if quick else 'every one'),
        'outcome_classes': dict(classes), 'rejected_events': len(rejected), 'states': r.distinct,
    }
    chk.assumptions = ['per-compilation time limit 240 s', 'sources come from generators and a catalogue, not from the whole grammar']
    return chk.finish()


def replay(path):
    print(open(path).read()[:4000])
    return 0
