"""C09 - acceptance implies one-byte-lookahead unambiguity.

LangMC.tla: for every generated program the real compiler ACCEPTED, TLC explores the source semantics (NmfuLang) over all
symbol cells and evaluates the language-theoretic predicate Ambiguous at every reachable decision point and every next
symbol: a construct whose end is found by lookahead (open-ended regex, optional, finished case pattern, loop body end) must
not be continued by a symbol that also starts what follows (strong first sets over the continuation stack); no string may
finish two clauses of a non-greedy case or finish one while another is still live; greedy ties need a unique highest
priority.  Direction: accepted => unambiguous (the compiler may reject more)."""
import random, collections
import runner, langgen, mc
from common import Check
from gen import prog as genprog
from props import c01
from tlagen import tla, TSet

CFG = 'SPECIFICATION Spec\nVIEW View\nCONSTRAINT Bound\nCHECK_DEADLOCK FALSE\n'


def explore(pairs, maxlen, timeout):
    cases = []
    for p, ast in pairs:
        body, classes = langgen.lang_program(ast)
        syms = langgen.conform_symbols(p.m, classes, 1, with_end=bool(p.flags['EOF_SUPPORT']))
        cases.append({'p': p, 'body': body, 'syms': syms, 'mtla': p.mtla(), 'maxlen': min(maxlen, mc.depth_for(len(syms), 200000))})

    def render(c):
        return '[mi |-> @MI@, body |-> %s, syms |-> %s, maxlen |-> %d]' % (c['body'], tla(TSet(c['syms'])), c['maxlen'])
    return runner.run_sharded('LangMC', cases, render, lambda c: c['mtla'], parallel=4, workers=4, timeout=timeout, cfg=CFG) + (cases,)


def run(tier, seed):
    chk = Check('C09', tier, seed, 'model_checking')
    rng = random.Random(seed * 7919 + 9)
    quick = tier != 'thorough'
    items, asts = [], []
    fams = [('pair', genprog.gen_pair_program, 500 if quick else 1200), ('tie', genprog.gen_greedy_tie_program, 150 if quick else 400),
            ('case', lambda s: genprog.gen_case_program(s, False), 300 if quick else 800)]
    for name, fn, n in fams:
        for i in range(n):
            s = rng.randrange(1 << 30)
            ast, src = fn(s)
            items.append(('%s:%d' % (name, s), src, ['-O1']))
            asts.append(ast)
    g_items, g_asts = c01.gen_items(rng, 200 if quick else 500, c01.FEATURES, levels=('-O1',))
    items += g_items
    asts += g_asts
    from props import enumfam
    e_items, e_asts, e_info = enumfam.slice_(tier, seed)
    items += e_items
    asts += e_asts
    progs = runner.compile_programs(items, want=('machine', 'codegen'))
    pairs = [(p, a) for p, a in zip(progs, asts) if p.ok]
    verdicts = collections.Counter((p.name.split(':')[0], p.res['outcome']) for p in progs)
    reports, st, cases = explore(pairs, 8 if quick else 12, 1600 if quick else 9000)
    for e in st['errors']:
        chk.machinery_error('TLC(LangMC): ' + str(e)[:1500])
    namb = 0
    for (p, a), reps in zip(pairs, reports):
        v = [r for r in reps if r['kind'] == 'AMBIGUOUS']
        if v:
            namb += 1
            r = min(v, key=lambda x: len(x['hist']))
            chk.violation('accepted program is ambiguous: after %r the symbol %s admits two continuations (%s frame) in %s'
                          % (bytes(x for x in r['hist'][:-1] if x < 256), r['hist'][-1], r['top'], p.name),
                          {'program': p.name, 'source': p.src, 'args': p.args, 'history': r['hist'], 'frame': r['top']})
    chk.coverage = {
        'states': st['states'], 'transitions': st['transitions'], 'traces_validated_against_impl': len(pairs),
        'samples': [{'source': c['p'].src, 'symbols': c['syms']} for c in cases[:2]],
        'programs_generated': len(items), 'programs_accepted': len(pairs), 'verdicts': {'%s/%s' % k: v for k, v in verdicts.items()},
        'ambiguous_accepted': namb, 'exhaustive': False, 'enumerated_family': enumfam.describe(e_info, sum(1 for p in progs[-len(e_items):] if p.ok)),
        'rule': 'statement pairs A;B with lookahead-terminated A, greedy cases with shared finishing strings and drawn priorities, case pattern sets, general programs; every reachable decision point x every symbol cell',
    }
    chk.assumptions = ['OP3: else clauses, wait skipping and catch handlers are fall-backs, not competing continuations']
    return chk.finish()


def replay(path):
    print(open(path).read()[:4000])
    return 0
