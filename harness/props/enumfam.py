"""The bounded-exhaustive program family (gen/enumprog.py) as used by the checks.

slice(tier, seed): thorough = every statement program of size <= 3 plus every k-th of size 4; quick = a strided slice of both whose
offset rotates with the seed.  Programs of the shapes of recorded known findings / open point OP8 are flagged (ast['known_class'],
ast['op8']) so that the source-semantics checks leave them out while the others keep them."""
import collections, json, shutil
import runner, mc
from gen import enumprog

# (stride over size <= 3, stride over size 4) per tier; 12329 programs of size <= 3, 472741 of size 4
STRIDES = {'quick': (8, 2003), 'thorough': (1, 41)}


def slice_(tier, seed, scale=1):
    s3, s4 = STRIDES['thorough' if tier == 'thorough' else 'quick']
    s3, s4 = s3 * scale, s4 * scale
    items, asts = [], []
    for idx, name, ast, src, args in enumprog.programs(3, stride=s3, offset=seed):
        items.append((name, src, args))
        asts.append(ast)
    for idx, name, ast, src, args in enumprog.programs(4, stride=s4, offset=seed, minsize=4):
        items.append((name, src, args))
        asts.append(ast)
    na = len(items)
    # second dialect (named loops and break L0, try with catch (outofspace) / (nomatch), a one-byte string, delete, character append,
    # multi-pattern / end case arms, if / elif, the `end` pattern; always with EOF support)
    for idx, name, ast, src, args in enumprog.programs2(3, stride=s3, offset=seed):
        items.append((name, src, args))
        asts.append(ast)
    for idx, name, ast, src, args in enumprog.programs2(4, stride=s4, offset=seed, minsize=4):
        items.append((name, src, args))
        asts.append(ast)
    return items, asts, {'size_le_3_stride': s3, 'size_4_stride': s4, 'size_le_3_total': enumprog.count(3),
                         'size_4_total': enumprog.count(4) - enumprog.count(3), 'second_dialect_size_le_3_total': enumprog.count2(3),
                         'second_dialect_size_4_total': enumprog.count2(4) - enumprog.count2(3), 'programs': len(items),
                         'programs_first_dialect': na, 'programs_second_dialect': len(items) - na}


def describe(info, accepted=None):
    d = dict(info)
    d['rule'] = ('every statement program of the two grammars in gen/enumprog.py with <= 3 nodes (every %d-th, offset = seed) and every %d-th with 4 nodes'
                 % (info['size_le_3_stride'], info['size_4_stride']))
    if accepted is not None:
        d['accepted'] = accepted
    return d


def machine_reports(chk, progs, kinds, classify, budget, timeout, post=1, label='enum'):
    """MachineMC over machines only; binaries are built lazily for the programs with a report of one of `kinds`, on which the report
    is confirmed before it counts.  classify(p, report, detail) -> known finding id or None."""
    reports, st, cases = mc.explore(progs, None, post=post, budget=budget, timeout=timeout)
    for e in st['errors']:
        chk.machinery_error('TLC(MachineMC %s): %s' % (label, str(e)[:1500]))
    todo = []
    count = collections.Counter()
    for p, reps in zip(progs, reports):
        first = {}
        for r in reps:
            if r['kind'] in kinds:
                count[r['kind']] += 1
                if r['kind'] not in first or len(r['hist']) < len(first[r['kind']]['hist']):
                    first[r['kind']] = r
        if first:
            todo.append((p, first))
    confirmed = 0
    if todo:
        built = runner.compile_programs([(p.name, p.src, p.args) for p, _ in todo])
        root = runner.scratch_dir()
        try:
            runner.build_programs(built, root)
            for q, (p, first) in zip(built, todo):
                if not q.bin:
                    chk.machinery_error('binary of %s %s does not build: %s' % (p.name, p.args, q.buildlog[-300:]))
                    continue
                for k, r in first.items():
                    ok, detail = mc.confirm(q, r)
                    if ok:
                        confirmed += 1
                        chk.violation('%s: %s %s on input history %s -> %s' % (k, p.name, p.args, r['hist'], json.dumps(detail)[:300]),
                                      {'program': p.name, 'args': p.args, 'source': p.src, 'history': r['hist'], 'kind': k, 'binary': detail},
                                      classify(q, r, detail))
                    elif ok is False:
                        chk.machinery_error('MachineMC reported %s for %s %s on %s but the binary does not show it: %s'
                                            % (k, p.name, p.args, r['hist'], json.dumps(detail)[:400]))
        finally:
            shutil.rmtree(root, ignore_errors=True)
    return st, count, confirmed
