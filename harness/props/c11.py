"""C11 - every accepted program compiles cleanly in every option combination.

Rows of a t-way covering array over the code-generation flags and options (pairs quick, triples thorough) are replayed
through the real compiler for programs covering every output type, action and node kind.  For each emitted header/source
pair the external compilers decide validity (gcc -std=c99 and -std=c11 with -Wall -Werror -Wno-unused-label on the source,
g++ on a translation unit that includes only the header), and the symbol table extracted from the header is validated by
TLC against ApiSpec.tla (start and feed always, end iff EOF support, free iff dynamic memory, hooks as prototypes or state
members, one result enumerator per declared code).  The compiler's verdict must not depend on representation options."""
import random, collections, json, os, re, shutil, subprocess
from concurrent.futures import ThreadPoolExecutor
import runner, covering, tlc, compiler
from common import Check
from gen import prog as genprog
from props import c01
from tlagen import tla

PARAMS = {
    'O': ['-O0', '-O1', '-O2', '-O3'], 'eof': [0, 1], 'yield': [0, 1], 'indirect': [0, 1], 'zerolen': [0, 1], 'strict': [0, 1],
    'storage': ['struct', 'dynamic', 'ondemand', 'ondemand_free'], 'u8': [0, 1], 'unsafe': [0, 1], 'hooks': ['global', 'perstate'],
    'userptr': [0, 1], 'packed': [0, 1], 'pragma': [0, 1], 'cppguard': [0, 1], 'collapse': ['default', '1', '300'],
}


def row_args(row):
    a = [row['O']]
    if row['eof']:
        a.append('-feof-support')
    if row['yield']:
        a.append('-fyield-support')
    if row['indirect']:
        a.append('-findirect-start-ptr')
    if row['zerolen']:
        a.append('-fzero-len-input-support')
    if row['strict']:
        a.append('-fstrict-done-token-generation')
    a += {'struct': [], 'dynamic': ['-fallocate-str-space-dynamic'], 'ondemand': ['-fallocate-str-space-dynamic-on-demand'],
          'ondemand_free': ['-fallocate-str-space-dynamic-on-demand', '-fdelete-string-free-memory']}[row['storage']]
    if row['u8']:
        a.append('-fstrings-as-u8')
    if row['unsafe']:
        a.append('-funsafe-string-indexing')
    if row['hooks'] == 'perstate':
        a.append('-fhook-per-state')
    if row['userptr']:
        a.append('-finclude-user-ptr')
    if row['packed']:
        a.append('-fuse-packed-enums')
    if row['pragma']:
        a.append('-fuse-pragma-once')
    if not row['cppguard']:
        a.append('-fno-use-cplusplus-guard')
    if row['collapse'] != 'default':
        a += ['-fcollapse-transition-ranges', '--collapsed-range-length', row['collapse']]
    return a


def header_symbols(h, name, hooks):
    syms = set()
    for fn in ('start', 'feed', 'end', 'free'):
        if re.search(r'\b%s_%s\s*\(' % (name, fn), h):
            syms.add('fn:' + fn)
    for hk in hooks:
        if re.search(r'\bvoid\s+%s_%s_hook\s*\(' % (name, hk), h):
            syms.add('hookproto:' + hk)
        if re.search(r'\b%s_hook_t\s+%s_hook\s*;' % (name, hk), h):
            syms.add('hookmember:' + hk)
    m = re.search(r'enum(?:\s+__attribute__\(\(packed\)\))?\s+%s_result\s*\{(.*?)\}' % name, h, re.S)
    if m:
        for e in re.findall(r'%s_([A-Za-z0-9_]+)' % name.upper(), m.group(1)):
            syms.add('code:' + e)
    return sorted(syms)


def cc_checks(workdir, res):
    os.makedirs(workdir, exist_ok=True)
    open(os.path.join(workdir, 'p.h'), 'w').write(res['h'])
    open(os.path.join(workdir, 'p.c'), 'w').write(res['c'])
    open(os.path.join(workdir, 'hdr.cpp'), 'w').write('#include "p.h"\nint main() { return 0; }\n')
    open(os.path.join(workdir, 'hdr2.c'), 'w').write('#include "p.h"\n#include "p.h"\nint unused_fn(void);\n')
    out = {}
    logs = {}
    # warnings about what the *user's* expression says (x == x, bool compared with 2, ...) are not the generator's doing
    # diagnostics about the *user's* constant expressions (x == x, 'a' % 0, '0' * '0' << 21, v << 36 ...) are the user's, not nmfu's
    USERW = ['-Wno-tautological-compare', '-Wno-bool-compare', '-Wno-div-by-zero', '-Wno-shift-overflow', '-Wno-shift-count-overflow',
             '-Wno-shift-count-negative', '-Wno-shift-negative-value', '-Wno-overflow']
    for key, cmd in (('c99', ['gcc', '-std=c99', '-Wall', '-Werror', '-Wno-unused-label'] + USERW + ['-c', 'p.c', '-o', 'p99.o']),
                     ('c11', ['gcc', '-std=c11', '-Wall', '-Werror', '-Wno-unused-label'] + USERW + ['-c', 'p.c', '-o', 'p11.o']),
                     ('cxx', ['g++', '-std=c++11', '-Wall', '-Werror', '-fsyntax-only', 'hdr.cpp']),
                     ('twice', ['gcc', '-std=c99', '-Wall', '-Werror', '-fsyntax-only', 'hdr2.c'])):
        p = subprocess.run(cmd, cwd=workdir, capture_output=True, text=True)
        out[key] = p.returncode == 0
        if p.returncode != 0:
            logs[key] = p.stderr[-600:]
    out['cxx'] = out['cxx'] and out.pop('twice')
    return out, logs


def run(tier, seed):
    chk = Check('C11', tier, seed, 'other')
    rng = random.Random(seed * 7919 + 11)
    quick = tier != 'thorough'
    rows = covering.covering_array(PARAMS, t=2 if quick else 3, rng=random.Random(seed), max_rows=60 if quick else 600)
    base = []
    for n, s, a in runner.corpus_programs(('example', 'ok')):
        base.append((n, s, [x for x in a if not x.startswith('-O')]))
    if quick:
        base = [b for i, b in enumerate(base) if i % 4 == 0 or b[0].startswith('corpus/')]
    g_items, _ = c01.gen_items(rng, 20 if quick else 80, c01.FEATURES | {'raw'}, levels=('-O1',))
    base += [(n, s, []) for n, s, a in g_items]
    for fam, fn in (('expr', lambda s: genprog.gen_expr_program(s, wide=True)[1]), ('lit', lambda s: genprog.gen_literal_program(s)[1]),
                    ('macro', lambda s: genprog.gen_macro_program(s)[1]), ('case', lambda s: genprog.gen_case_program(s, False)[1])):
        for i in range((10 if fam == 'expr' else 4) if quick else 30):
            s = rng.randrange(1 << 30)
            base.append(('%s:%d' % (fam, s), fn(s), []))
    # yield / end programs only make sense with their flag: those rows are forced
    y_items, _ = c01.gen_items(rng, 4 if quick else 30, c01.FEATURES | {'yield', 'end'}, levels=('-O1',))
    base += [(n, s, [x for x in a if x in ('-fyield-support', '-feof-support')]) for n, s, a in y_items]
    jobs = []
    meta = []
    for bi, (n, s, a) in enumerate(base):
        # every row is used by some program; each program is compiled under 6 (quick) / 40 (thorough) of them, round-robin
        use_rows = [rows[(bi * 7 + k) % len(rows)] for k in range(8 if quick else min(40, len(rows)))]
        for row in use_rows:
            args = list(a) + [x for x in row_args(row) if x not in a]
            meta.append((n, s, args, row))
            jobs.append({'id': len(jobs), 'src': s, 'args': args, 'name': 'p', 'want': ['machine', 'c']})
    res = compiler.run_jobs(jobs, nworkers=14, timeout=120)
    root = runner.scratch_dir()
    events = []
    ev_meta = []
    verdicts = collections.defaultdict(set)
    try:
        def one(i):
            r = res[i]
            if r.get('outcome') != 'code':
                return None
            cc, logs = cc_checks(os.path.join(root, 'p%d' % i), r)
            return cc, logs
        with ThreadPoolExecutor(14) as ex:
            ccs = list(ex.map(one, range(len(jobs))))
        for i, (n, s, args, row) in enumerate(meta):
            r = res[i]
            # EOF and yield support are semantic options (e.g. $last may not be used where end-of-input can trigger the action):
            # the verdict is compared among the rows that agree on them
            vkey = (s, '-feof-support' in args, '-fyield-support' in args, tuple(x for x in args if x.startswith('-O')))       # (unreachable states are only checked at -O0)
            verdicts[vkey].add(r.get('outcome') if r.get('outcome') == 'code' else (r.get('outcome'), r.get('errclass')))
            if r.get('outcome') in ('internal_error', 'timeout'):
                chk.violation('compiler crashed on %s %s: %s %s' % (n, args, r.get('errclass'), (r.get('msg') or '')[:200]),
                              {'program': n, 'source': s, 'args': args, 'msg': r.get('msg'), 'traceback': r.get('tb')})
                continue
            if r.get('outcome') != 'code':
                continue
            cc, logs = ccs[i]
            f = r['flags']
            m = r['machine']
            events.append({'cfg': {'eof': f['EOF_SUPPORT'], 'dyn': f['DYNAMIC_MEMORY'], 'hookglobal': f['HOOK_GLOBAL'], 'hookstate': f['HOOK_PER_STATE'], 'yield': f['YIELD_SUPPORT']},
                           'hooks': m['hooks'], 'fcodes': m['finish_codes'], 'ycodes': m['yield_codes'],
                           'syms': header_symbols(r['h'], 'p', m['hooks']), 'compiles': {'c99': cc['c99'], 'c11': cc['c11'], 'cxx': cc['cxx']}})
            ev_meta.append((i, logs))
    finally:
        shutil.rmtree(root, ignore_errors=True)
    # representation option rows must not change the verdict of a program
    nverd = 0
    for (s, _eof, _yld, _lvl), vs in verdicts.items():
        if len(vs) > 1 and 'code' in vs:
            nverd += 1
            others = [v for v in vs if v != 'code']
            chk.violation('the verdict of one program depends on code-generation options: accepted under some rows, %s under others' % (others[:2],),
                          {'source': s, 'verdicts': [str(v) for v in vs]})
    mod = '---- MODULE CasesData ----\nEXTENDS Integers, Sequences, TLC\nMachines == <<>>\nCases == %s\n====\n' % tla(events)
    r = tlc.run_tlc('ApiSpec', 'SPECIFICATION Spec\nCHECK_DEADLOCK FALSE\n', {'CasesData': mod}, workers=8, timeout=900)
    if not r.ok:
        chk.machinery_error('TLC(ApiSpec): ' + (r.error or r.stdout[-1000:]))
    seen = set()
    nrej = 0
    for x in r.reports:
        if x.get('kind') != 'REJECT':
            continue
        nrej += 1
        i, logs = ev_meta[x['cid'] - 1]
        n, s, args, row = meta[i]
        firsterr = ''
        for k, l in logs.items():
            mm = re.search(r'error: (.*)', l)
            firsterr = '%s: %s' % (k, mm.group(1)[:120] if mm else l[-120:])
            break
        key = (tuple(x.get('missing') or []), tuple(x.get('extra') or []), re.sub(r"[0-9]+", "N", firsterr))
        if key in seen:
            continue
        seen.add(key)
        chk.violation('emitted code of %s under %s is not clean: missing API %s, unexpected API %s, compilers %s %s'
                      % (n, args, x.get('missing'), x.get('extra'), x.get('compiles'), firsterr),
                      {'program': n, 'source': s, 'args': args, 'missing': x.get('missing'), 'extra': x.get('extra'), 'compiler_logs': logs})
    chk.coverage = {
        'explanation': 'Validity of the emitted C text is decided by gcc (-std=c99 and -std=c11, -Wall -Werror -Wno-unused-label) and g++ (header-only translation unit, also included twice) acting as replay oracle; '
                       'the TLA+ part (ApiSpec.tla, checked by TLC on every recorded header) decides which API symbols must be declared for each resolved configuration and declaration set. '
                       'Option combinations come from a %d-way covering array (%d rows) over %d flags/options.' % (2 if quick else 3, len(rows), len(PARAMS)),
        'evaluations': len(jobs), 'distinct_nontrivial': len(events), 'rule': 'program x covering-array row; non-trivial = accepted by the compiler and checked by the C/C++ compilers and ApiSpec',
        'samples': [{'program': meta[0][0], 'args': meta[0][2]}, {'row': rows[0]}],
        'programs': len(base), 'rows': len(rows), 'headers_validated': len(events), 'rejected': nrej, 'verdict_dependencies': nverd, 'states': r.distinct,
    }
    chk.assumptions = ['gcc 12 / g++ 12 on x86-64 as the definition of "valid C / C++ without warnings"', 'warnings about the user\'s own expression (-Wtautological-compare, -Wbool-compare) are excluded']
    return chk.finish()


def replay(path):
    print(open(path).read()[:4000])
    return 0
