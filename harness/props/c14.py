"""C14 - math expressions evaluate as C arithmetic over the parser's variables.

The generator builds typed expression trees (all operators and atoms, operand widths 1/2/4 bytes signed/unsigned, string
length and indexed bytes, $last) and prints them with minimal parentheses under the grammar's precedence, inside one-statement
uses: assignment, character append, conditional action, condition point.  The real compiler parses the text and emits C.
In the exported machine the expression of that statement is then *replaced by the generator's own tree*, and StepTrace
validates the C binary against it: from forced operand contexts (boundary values within the declared ranges) and for boundary
and random byte values of $last, the value the C computes must equal NmfuExpr.Eval of the generator's tree - C semantics with integer
promotion, usual arithmetic conversions, truncating division, comparison results 0/1, short-circuit && ||, store conversion
to the declared width and sign, bounds-checked indexing.  A swapped precedence layer in the grammar, a missing parenthesis in
the emitted C or a wrong width table all change that value.  A smaller set is also run through Conform (machine vs Lang).
Steps whose C evaluation is undefined, or outside the modelled 32-bit range, are skipped and counted."""
import random, copy, collections, json, shutil
import runner, conform, langgen, cbuild, steps
from common import Check
from gen import prog as genprog
from props import c01, c06


def find_exprs(ast):
    """the statements of the program that carry the expression under test"""
    out = {}
    for s in ast['body']:
        if s['t'] == 'set' and s['var'] == 'res':
            out['res'] = s['e']
        elif s['t'] == 'appendc':
            out['appendc'] = s['e']
        elif s['t'] == 'if':
            out['cond'] = s['br'][0]['c']
    return out


def substitute(m, ast):
    """copy of the exported machine with the expressions under test replaced by the generator's trees"""
    ctx = langgen.Ctx(ast)
    ex = find_exprs(ast)
    m2 = copy.deepcopy(m)
    n = 0
    hot = set()
    cur = [None]

    def walk_acts(acts):
        nonlocal n
        for a in acts:
            if a['op'] == 'set' and a['var'] == 'res' and 'res' in ex:
                a['expr'] = ctx.expr(ex['res'])
                n += 1
                hot.add(cur[0])
            elif a['op'] == 'appendc' and 'appendc' in ex:
                a['expr'] = ctx.expr(ex['appendc'])
                n += 1
                hot.add(cur[0])
            elif a['op'] == 'cond':
                if 'cond' in ex and a['branches'] and a['branches'][0]['cond']['k'] == 'expr' and any(x['op'] == 'set' and x['var'] == 'flag' for x in a['branches'][0]['acts']):
                    a['branches'][0]['cond'] = {'k': 'expr', 'e': ctx.expr(ex['cond'])}
                    n += 1
                    hot.add(cur[0])
                for b in a['branches']:
                    walk_acts(b['acts'])
            elif a['op'] == 'break':
                walk_acts(a['sub'])
    for qi, st in enumerate(m2['states']):
        cur[0] = qi
        if st['kind'] == 'cond' and 'cond' in ex and st['trans'] and st['trans'][0]['cond']['k'] == 'expr':
            st['trans'][0]['cond'] = {'k': 'expr', 'e': ctx.expr(ex['cond'])}
            n += 1
            hot.add(qi)
        for t in st['trans']:
            walk_acts(t['acts'])
    cur[0] = None
    walk_acts(m2['start_actions'])
    return m2, n, sorted(x for x in hot if x is not None)


def run(tier, seed):
    chk = Check('C14', tier, seed, 'model_checking')
    rng = random.Random(seed * 7919 + 14)
    quick = tier != 'thorough'
    items, asts = [], []
    for i in range(150 if quick else 600):
        s = rng.randrange(1 << 30)
        ast, src = genprog.gen_expr_program(s, wide=(i % 3 == 2))      # every third program: 4-byte unsigned and 8-byte operands, constants beyond 32 bits
        items.append(('expr:%d' % s, src, [rng.choice(['-O1', '-O2', '-O3'])] + (['-fstrings-as-u8'] if i % 2 else []) + (['-funsafe-string-indexing'] if i % 7 == 0 else [])))
        asts.append(ast)
    # constant table: every escaped character constant and a rotating sample of the plain ones, each as `res = ['c' + v0]`
    plain = [c for c in range(0x20, 0x7f) if c not in (0x27, 0x5c)]
    table = [8, 9, 10, 13, 0x27, 0x5c] + (plain[seed % 8::8] if quick else plain)
    for c in table:
        s = rng.randrange(1 << 30)
        ast, src = genprog.gen_expr_program(s, expr={'k': 'bin', 'op': '+', 'l': {'k': 'chr', 'c': c}, 'r': {'k': 'var', 'name': 'v0'}})
        items.append(('chr:%d' % c, src, ['-O1']))
        asts.append(ast)
    import time, sys
    T0 = time.time()
    def lap(what):
        print('[C14 %6.1fs] %s' % (time.time() - T0, what), file=sys.stderr)
    progs = runner.compile_programs(items)
    lap('compiled')
    root = runner.scratch_dir()
    nsub = 0
    try:
        runner.build_programs(progs, root)
        lap('built')
        good = []
        for p, ast in zip(progs, asts):
            if not p.ok or not p.bin:
                continue
            m2, n, hot = substitute(p.m, ast)
            if n == 0 or not hot:
                continue
            p.hot = hot
            nsub += n
            p.res['machine'] = m2          # the specification side now evaluates the generator's tree
            if hasattr(p, '_mtla'):
                del p._mtla
            good.append(p)
        BYTES = [0, 1, 2, 7, 31, 32, 47, 48, 57, 65, 97, 122, 127, 128, 129, 200, 254, 255]
        swcases, nsweeps, dropped = c06.sweeps_for(chk, good, rng, 8 if quick else 16, 4, root, states_of=lambda p: p.hot,
                                                   bytes_of=lambda p: BYTES + [rng.randrange(256) for _ in range(4)])
        lap('swept')
        swres, swst = runner.validate_sweeps(swcases, workers=2, parallel=8)
        lap('sweeps validated %s' % (swst.get('shard_walls'),))
        acc = undef = 0
        for c, (v, reps) in zip(swcases, swres):
            for r in reps:
                if r.get('kind') == 'UNDEF':
                    undef += r.get('n', 0)
            if v == 'ACCEPT':
                acc += 1
            elif v == 'REJECT':
                r = [x for x in reps if x['kind'] == 'REJECT'][0]
                ex = find_exprs(asts[c['p'].pid])
                chk.violation('the emitted C computes a different value than C semantics of the source expression (%s) in state %s for $last=%s: %s in %s %s'
                              % (r['clause'], r['q'], r['sym'], {k: genprog.spell_expr(v) for k, v in ex.items()}, c['p'].name, c['p'].args),
                              {'program': c['p'].name, 'source': c['p'].src, 'args': c['p'].args, 'state': r['q'], 'last': r['sym'],
                               'context': r['pre'], 'spec': r['spec'], 'impl': r['impl']})
            else:
                chk.machinery_error('no verdict for sweeps of %s' % (c['key'],))
        for e in swst['errors']:
            chk.machinery_error('TLC(StepTrace): ' + str(e)[:1500])
    finally:
        shutil.rmtree(root, ignore_errors=True)
    # a smaller set through the source semantics as well (machine vs Lang on operands loaded from input bytes)
    k = 3 if quick else 60
    progs2 = runner.compile_programs(items[:k], want=('machine', 'codegen'))
    pairs = [(p, a) for p, a in zip(progs2, asts[:k]) if p.ok]
    reports, st, cases = conform.explore(pairs, maxlen=4, per_cell=1, timeout=1500 if quick else 9000, budget=300 if quick else 8000)
    lap('conform done')
    kinds = collections.Counter()
    for (p, ast), reps in zip(pairs, reports):
        for r in reps:
            kinds[r['kind']] += 1
        v = [r for r in reps if r['kind'] == 'VIOL']
        if v:
            r = min(v, key=lambda x: len(x['hist']))
            chk.violation('expression value in the compiled machine differs from C semantics of the source expression after input %s for %s %s' % (r['hist'], p.name, p.args),
                          {'program': p.name, 'args': p.args, 'source': p.src, 'history': r['hist'], 'machine_events': r['mev'], 'machine_data': r.get('md'), 'lang_candidates': r['lang'][:6]})
    rejected = collections.Counter((p.res.get('errclass'), (p.res.get('msg') or '').split('\n')[0][:60]) for p in progs if not p.ok)
    chk.coverage = {
        'states': swst['states'] + st['states'], 'transitions': swst['transitions'] + st['transitions'],
        'traces_validated_against_impl': acc + len(pairs),
        'samples': [{'source': p.src, 'args': p.args, 'expressions': {k: genprog.spell_expr(v) for k, v in find_exprs(asts[p.pid]).items()}} for p in good[:3]],
        'expression_programs': len(good), 'expressions_substituted': nsub, 'single_step_sweeps': nsweeps,
        'single_steps_compared': nsweeps * 22 - undef, 'steps_undefined_or_out_of_model': undef, 'sweeps_dropped_wide_values': dropped,
        'conform_programs': len(pairs), 'conform_reports': dict(kinds),
        'programs_generated': len(items), 'rejected': {str(k): v for k, v in rejected.most_common(5)}, 'exhaustive': False,
        'rule': 'random expression trees of depth <= 3 over all operators in assignment / character append / conditional action / condition point; 22 values of $last (boundaries + random) x 8 forced operand contexts',
    }
    chk.assumptions = ['LP64, gcc: char is signed, >> of negative values is arithmetic', 'values outside the signed 32-bit range of the TLC model are skipped and counted']
    return chk.finish()


def replay(path):
    print(open(path).read()[:4000])
    return 0
