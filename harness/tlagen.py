"""Python values -> TLA+ literal text, and the exported machine -> the record NmfuMachine expects."""
import json

MAXI = 2**31 - 1


WBASE = 32768


def wide(v):
    """NmfuWide literal of a Python integer"""
    n = abs(v)
    limbs = []
    while n:
        limbs.append(n % WBASE)
        n //= WBASE
    return Raw('[neg |-> %s, m |-> <<%s>>]' % ('TRUE' if v < 0 else 'FALSE', ','.join(map(str, limbs))))


def fits(v):
    return -MAXI - 1 <= v <= MAXI


def scalar_cell(v):
    """the specification's scalar cell for a C integer value"""
    return {'v': v} if fits(v) else {'w': wide(v)}


class Raw(str):
    """already-rendered TLA+ text"""


class TSet(list):
    """render as a TLA+ set"""


class TMap(dict):
    """render as a function  k :> v @@ ...  (string keys that need not be identifiers)"""


def tla_str(s):
    out = []
    for ch in s:
        if ch == '\\':
            out.append('\\\\')
        elif ch == '"':
            out.append('\\"')
        elif ch == '\n':
            out.append('\\n')
        elif ch == '\t':
            out.append('\\t')
        elif 32 <= ord(ch) < 127:
            out.append(ch)
        else:
            out.append('?')
    return '"' + ''.join(out) + '"'


def tla(v):
    if isinstance(v, Raw):
        return str(v)
    if isinstance(v, bool):
        return 'TRUE' if v else 'FALSE'
    if isinstance(v, int):
        if not (-MAXI - 1 <= v <= MAXI):
            raise ValueError('integer out of TLC range: %r' % v)
        if v == -MAXI - 1:
            return '(-2147483647 - 1)'      # TLC parses the digits before the sign
        return str(v) if v >= 0 else '(%d)' % v
    if isinstance(v, str):
        return tla_str(v)
    if v is None:
        return '"null"'
    if isinstance(v, TSet) or isinstance(v, (set, frozenset)):
        return '{' + ','.join(tla(x) for x in sorted(v, key=lambda z: (str(type(z)), z))) + '}'
    if isinstance(v, TMap):
        if not v:
            return '<<>>'
        return '(' + ' @@ '.join('%s :> %s' % (tla_str(k), tla(x)) for k, x in v.items()) + ')'
    if isinstance(v, dict):
        if not v:
            return '<<>>'
        return '[' + ', '.join('%s |-> %s' % (k, tla(x)) for k, x in v.items()) + ']'
    if isinstance(v, (list, tuple)):
        return '<<' + ','.join(tla(x) for x in v) + '>>'
    raise TypeError(type(v))


# ---------------------------------------------------------------------------
RAW_SIZES = {"int8_t": 1, "uint8_t": 1, "int16_t": 2, "uint16_t": 2, "int32_t": 4, "uint32_t": 4,
             "int64_t": 8, "uint64_t": 8, "float": 4, "double": 8}


def conv_expr(e):
    k = e['k']
    if k == 'lit':
        v = e['v']
        if not isinstance(v, int):
            return {'k': 'litwide'}
        if not fits(v):
            # a decimal constant that does not fit int has type long on LP64; beyond long the C type is not modelled
            if -(1 << 63) <= v < (1 << 63):
                return {'k': 'litw', 'w': wide(v)}
            return {'k': 'litwide'}
        return {'k': 'lit', 'v': v}
    if k in ('var', 'len'):
        return {'k': k, 'name': e['name']}
    if k == 'idx':
        return {'k': 'idx', 'name': e['name'], 'i': conv_expr(e['i'])}
    if k == 'last':
        return {'k': 'last'}
    if k == 'sum':
        return {'k': 'sum', 'c': [conv_expr(x) for x in e['c']], 'neg': list(e['neg'])}
    if k == 'mul':
        return {'k': 'mul', 'c': [conv_expr(x) for x in e['c']], 'ops': list(e['ops'])}
    if k == 'cmp':
        return {'k': 'cmp', 'op': e['op'], 'l': conv_expr(e['l']), 'r': conv_expr(e['r'])}
    if k == 'shift':
        return {'k': 'shift', 'l': conv_expr(e['l']), 'r': conv_expr(e['r']), 'left': bool(e['left'])}
    if k == 'bit':
        return {'k': 'bit', 'op': e['op'], 'c': [conv_expr(x) for x in e['c']]}
    if k in ('or', 'and'):
        return {'k': k, 'c': [conv_expr(x) for x in e['c']]}
    raise ValueError('unknown expr kind %r' % (e,))


def conv_cond(c):
    if c['k'] == 'expr':
        return {'k': 'expr', 'e': conv_expr(c['e'])}
    if c['k'] == 'const':
        return {'k': 'const', 'v': bool(c['v'])}
    if c['k'] in ('else', 'none'):
        return {'k': c['k']}
    raise ValueError(c)


def conv_act(a):
    op = a['op']
    if op in ('finish', 'yield'):
        return {'op': op, 'code': a['code']}
    if op == 'hook':
        return {'op': op, 'name': a['name']}
    if op == 'set':
        return {'op': op, 'var': a['var'], 'expr': conv_expr(a['expr'])}
    if op == 'setstr':
        return {'op': op, 'var': a['var'], 'bytes': [b for b in a['bytes']]}
    if op == 'delete':
        return {'op': op, 'var': a['var']}
    if op == 'append':
        return {'op': op, 'var': a['var'], 'ovf': a['ovf']}
    if op == 'appendc':
        return {'op': op, 'var': a['var'], 'expr': conv_expr(a['expr']), 'ovf': a['ovf']}
    if op == 'cond':
        return {'op': op, 'branches': [{'cond': conv_cond(b['cond']), 'acts': [conv_act(x) for x in b['acts']]} for b in a['branches']]}
    if op == 'break':
        return {'op': op, 'sub': [conv_act(x) for x in a['sub']], 'to': a['to']}
    raise ValueError('unknown action %r' % (a,))


def conv_decl(o):
    t = o['type']
    d = {'type': t, 'signed': True, 'width': 4, 'size': 0, 'term': False, 'hasdef': False, 'def': 0, 'bigdef': False, 'defw': wide(0)}
    if t == 'int':
        d['signed'] = bool(o['signed'])
        d['width'] = o['width']
        if o.get('default') is not None:
            d['hasdef'] = True
            v = o['default']['v']
            if fits(v):
                d['def'] = v
            else:
                d['bigdef'] = True
                d['defw'] = wide(v)
    elif t == 'bool':
        if o.get('default') is not None:
            d['hasdef'] = True
            d['def'] = o['default']['v']
    elif t == 'enum':
        if o.get('default') is not None:
            d['hasdef'] = True
            d['def'] = o['default']['v']
    elif t == 'str':
        d['size'] = o['size']
        d['term'] = bool(o['term'])
        d['def'] = []
        if o.get('default') is not None:
            d['hasdef'] = True
            d['def'] = list(o['default'])
    elif t == 'raw':
        d['size'] = RAW_SIZES.get(o['raw'], 0)
        d['def'] = []
    return d


def _has_yield(a):
    if a['op'] == 'yield':
        return True
    if a['op'] == 'cond':
        return any(_has_yield(x) for b in a['branches'] for x in b['acts'])
    if a['op'] == 'break':
        return any(_has_yield(x) for x in a['sub'])
    return False


def machine_cfg(flags, m=None):
    f = flags
    endcheck = bool(f['ZERO_LEN_INPUT_SUPPORT'])
    if m is not None and not endcheck:
        endcheck = any(_has_yield(a) for s in m['states'] for t in s['trans'] for a in t['acts'])
    return {
        'endcheck': endcheck,
        'packed': f['USE_PACKED_ENUMS'], 'u8': f['STRINGS_AS_U8'], 'unsafe': f['UNSAFE_STRING_INDEXING'],
        'dyn': f['ALLOCATE_STR_SPACE_DYNAMIC'], 'ondemand': f['ALLOCATE_STR_SPACE_DYNAMIC_ON_DEMAND'],
        'delfree': f['DELETE_STRING_FREE_MEMORY'], 'strict': f['STRICT_DONE_TOKEN_GENERATION'],
        'eof': f['EOF_SUPPORT'], 'indirect': f['INDIRECT_START_PTR'], 'yield': f['YIELD_SUPPORT'],
        'zerolen': f['ZERO_LEN_INPUT_SUPPORT'],
    }


def conv_machine(m, flags):
    """exported machine JSON (+ resolved flags) -> python structure rendered by tla()"""
    states = []
    for s in m['states']:
        trans = []
        for t in s['trans']:
            trans.append({
                'on': TSet(t['on']), 'els': t['els'], 'end': t['end'], 'tgt': t['tgt'], 'fall': t['fall'],
                'err': t['err'], 'acts': [conv_act(a) for a in t['acts']], 'cond': conv_cond(t['cond']),
                'immdone': t['immdone'], 'early': t['early'],
            })
        states.append({'kind': s['kind'], 'acc': s['acc'], 'trans': trans})
    decl = TMap()
    for o in m['outs']:
        decl[o['name']] = conv_decl(o)
    return {
        'states': states, 'start': m['start'], 'fail': m['fail'],
        'sacts': [conv_act(a) for a in m['start_actions']],
        'decl': decl, 'names': [o['name'] for o in m['outs']],
        'cfg': machine_cfg(flags, m),
    }


def machine_tla(m, flags):
    return tla(conv_machine(m, flags))
