"""Exhaustive TLC exploration of exported machines (MachineMC.tla): symbol cells, runs, report collection."""
import json
import runner, tlagen
from tlagen import tla, TSet


def _expr_lits(e, acc):
    if isinstance(e, dict):
        if e.get('k') == 'lit' and isinstance(e.get('v'), int) and 0 <= e['v'] <= 255:
            acc.add(e['v'])
        for v in e.values():
            _expr_lits(v, acc)
    elif isinstance(e, list):
        for v in e:
            _expr_lits(v, acc)


def symbol_cells(m, neighbours=True):
    """coarsest partition of 0..255 refining every transition set of the machine; byte constants of
    expressions (and their neighbours) are singled out because $last comparisons depend on them"""
    sig = [[] for _ in range(256)]
    k = 0
    for st in m['states']:
        for t in st['trans']:
            if t['on']:
                on = set(t['on'])
                for b in range(256):
                    sig[b].append(b in on)
    lits = set()
    _expr_lits(m['states'], lits)
    single = set()
    for v in lits:
        single.update(x for x in ((v - 1, v, v + 1) if neighbours else (v,)) if 0 <= x <= 255)
    cells = {}
    for b in range(256):
        key = ('lit', b) if b in single else tuple(sig[b])
        cells.setdefault(key, []).append(b)
    return list(cells.values())


def representatives(m, per_cell=1, data_sensitive=False, neighbours=True):
    reps = set()
    for cell in symbol_cells(m, neighbours):
        reps.add(cell[0])
        if per_cell >= 2 and len(cell) > 1:
            reps.add(cell[-1])
        if per_cell >= 3 and len(cell) > 2:
            reps.add(cell[len(cell) // 2])
    return sorted(reps)


MC_CFG = 'SPECIFICATION Spec\nVIEW View\nCONSTRAINT Bound\nCHECK_DEADLOCK FALSE\n'


def depth_for(nsyms, budget, lo=3, hi=16):
    import math
    return max(lo, min(hi, int(math.log(budget) / math.log(max(2, nsyms)))))


def explore(progs, maxlen=None, post=2, per_cell=1, parallel=4, workers=4, timeout=1500, with_end=True, budget=30000):
    """returns (reports per prog (list of lists), stats, cases).  maxlen None: per-program depth from a path budget"""
    cases = []
    for p in progs:
        syms = representatives(p.m, per_cell)
        if with_end and p.flags['EOF_SUPPORT']:
            syms = syms + [256]
        cases.append({'p': p, 'syms': syms, 'mtla': p.mtla(), 'maxlen': maxlen if maxlen is not None else depth_for(len(syms), budget)})

    def render(c):
        return '[mi |-> @MI@, syms |-> %s, maxlen |-> %d, post |-> %d]' % (tla(TSet(c['syms'])), c['maxlen'], post)
    reports, stats = runner.run_sharded('MachineMC', cases, render, lambda c: c['mtla'], parallel=parallel, workers=workers,
                                        timeout=timeout, cfg=MC_CFG)
    return reports, stats, cases


def cover_inputs(progs, k=12, budget=200000, rng=None, parallel=8, timeout=900, maxlen=None):
    """Specification-guided inputs (Cover.tla): for every program the shortest symbol histories reaching each
    distinguishable single-step behaviour of its exported machine.  Returns ({pid: [bytes, ...]}, stats).  At most k
    inputs per program are kept, chosen so that every step signature (state, successor, result, events - the symbol
    left out) is reached by at least one of them before a second witness of any signature is taken."""
    import random as _r
    rng = rng or _r.Random(1)
    cases = []
    for p in progs:
        syms = representatives(p.m, 1, neighbours=False)
        if p.flags['EOF_SUPPORT']:
            syms = syms + [256]
        cases.append({'p': p, 'syms': syms, 'mtla': p.mtla(), 'maxlen': maxlen if maxlen is not None else depth_for(len(syms), budget, lo=4, hi=12)})

    def render(c):
        return '[mi |-> @MI@, syms |-> %s, maxlen |-> %d]' % (tla(TSet(c['syms'])), c['maxlen'])
    reports, stats = runner.run_sharded('Cover', cases, render, lambda c: c['mtla'], parallel=parallel, workers=1,
                                        timeout=timeout, cfg=MC_CFG, max_bytes=400_000)
    out = {}
    nitems = nsig = 0
    for c, reps in zip(cases, reports):
        reps = [r for r in reps if r.get('kind') == 'COVER']
        nitems += len(reps)
        groups = {}
        for r in reps:
            groups.setdefault(json.dumps(r.get('sig')), []).append(tuple(r['hist']))
        nsig += len(groups)
        # longest-first over the first witness of every signature: a longer history passes through earlier signatures
        firsts = sorted((hs[0] for hs in groups.values()), key=lambda h: (-len(h), h))
        covered = set()
        chosen = []
        sig_of = {tuple(r['hist']): json.dumps(r.get('sig')) for r in reps}
        for h in firsts:
            if sig_of[h] in covered:
                continue
            chosen.append(h)
            for i in range(1, len(h) + 1):
                sg = sig_of.get(h[:i])
                if sg:
                    covered.add(sg)
        if len(chosen) > k:
            # keep the deepest ones and a sample of the rest
            head = chosen[:k // 2]
            chosen = head + rng.sample(chosen[k // 2:], k - len(head))
        elif len(chosen) < k:
            extra = [hs[-1] for hs in groups.values() if len(hs) > 1 and hs[-1] not in chosen]
            rng.shuffle(extra)
            chosen += extra[:k - len(chosen)]
        ins = []
        for h in chosen:
            b = bytes(x for x in h if x != 256)
            if b not in ins:
                ins.append(b)
        out[c['p'].pid] = ins
    stats['items'] = nitems
    stats['signatures'] = nsig
    return out, stats


# ---------------------------------------------------------------------------
def replay_hist(p, hist, binary=None, timeout=4.0):
    """Replay a MachineMC witness on the real binary the way the modelled caller behaves: one byte per feed call,
    re-invoking after yields that did not consume, END -> <parser>_end.  Returns list of (symbol, [events]) and status."""
    import trace as tr
    rec = runner.Recorder(p, binary or p.bin, timeout=timeout)
    names = rec.names
    out = []
    status = 'ok'
    try:
        rec.proc.stdin.write('N\n')
        e = rec._cmd('S')
        if e in (None, 'HANG'):
            return out, 'hang' if e == 'HANG' else 'died'
        out.append(('start', [e]))
        for c in hist:
            evs = []
            if c == 256:
                e = rec._cmd('E')
                if e in (None, 'HANG'):
                    status = 'hang' if e == 'HANG' else 'died'
                    break
                evs.append(e)
            else:
                for k in range(12):
                    e = rec._cmd('F %02x' % c)
                    if e in (None, 'HANG'):
                        status = 'hang' if e == 'HANG' else 'died'
                        break
                    evs.append(e)
                    rc = names[e['rc']] if e['rc'] < len(names) else '?'
                    if rc.startswith('YIELD_') and e.get('adv') == 0:
                        continue
                    break
                if status != 'ok':
                    out.append((c, evs))
                    break
            out.append((c, evs))
    finally:
        if status != 'ok':
            rec.restart()
        rec.close()
    return out, status


def confirm(p, rep, binary=None):
    """does the real binary show what MachineMC reported?  returns (confirmed: bool|None, detail)"""
    import trace as tr
    names = tr.rc_names(p.m)
    steps, status = replay_hist(p, rep['hist'], binary)
    kind = rep['kind']

    def rcs(evs):
        return [names[e['rc']] if e.get('rc', 99) < len(names) else '?' for e in evs]
    flat = [(c, rcs(evs), evs) for c, evs in steps]
    summary = [(c, r) for c, r, _ in flat]
    if kind == 'SPIN':
        return status == 'hang', {'status': status, 'calls': summary}
    if status != 'ok':
        return (True if kind == 'UB' else None), {'status': status, 'calls': summary}
    if kind == 'YIELDLOCK':
        last = flat[-1]
        ok = len(last[1]) >= 9 and all(x.startswith('YIELD_') for x in last[1]) and all(e.get('adv') == 0 for e in last[2])
        return ok, {'calls': summary}
    if kind == 'FAILNOTABS':
        seen_fail = False
        for c, r, evs in flat[1:]:
            for x in r:
                if seen_fail and x != 'FAIL':
                    return True, {'calls': summary}
                if x == 'FAIL':
                    seen_fail = True
        return False, {'calls': summary}
    if kind == 'STALL':
        c, r, evs = flat[-1]
        if evs and evs[-1].get('adv', -1) == -1:
            return None, {'calls': summary, 'note': 'direct start pointer: consumption not observable'}
        return (r[-1] == 'OK' and evs[-1]['adv'] == 0), {'calls': summary}
    if kind in ('UB', 'CAP'):
        return None, {'calls': summary}
    return None, {'calls': summary}
