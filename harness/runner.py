"""Shared plumbing of the trace-based checks: compile + build programs, produce inputs,
record driver traces, validate them with TLC (ApiTrace / StepTrace)."""
import os, sys, json, random, subprocess, tempfile, shutil, time, glob, shlex
from concurrent.futures import ThreadPoolExecutor

HERE = os.path.dirname(os.path.abspath(__file__))
sys.path.insert(0, HERE)
import compiler, cbuild, tlagen, trace, tlc  # noqa: E402

REPO = compiler.REPO


def scratch_dir(prefix='nmfu_verif_'):
    return tempfile.mkdtemp(prefix=prefix)


# ---------------------------------------------------------------------------
def corpus_programs(which=('example', 'ok')):
    """(name, source, args-from-first-line) of the repository's own programs"""
    out = []
    pats = []
    if 'example' in which:
        pats.append(os.path.join(REPO, 'example', '*.nmfu'))
    if 'ok' in which:
        pats.append(os.path.join(REPO, 'example', 'test', '*.ok.nmfu'))
    if 'fail' in which:
        pats.append(os.path.join(REPO, 'example', 'test', '*.fail.nmfu'))
    for pat in pats:
        for f in sorted(glob.glob(pat)):
            src = open(f).read()
            first = src.splitlines()[0] if src else ''
            args = shlex.split(first[len('// args: '):]) if first.startswith('// args: ') else []
            out.append((os.path.basename(f), src, args))
    for f in sorted(glob.glob(os.path.join(os.path.dirname(HERE), 'corpus', '*.nmfu'))):
        src = open(f).read()
        first = src.splitlines()[0] if src else ''
        args = shlex.split(first[len('// args: '):]) if first.startswith('// args: ') else []
        out.append(('corpus/' + os.path.basename(f), src, args))
    return out


class Prog:
    """one compiled program+option set"""
    def __init__(self, pid, name, src, args):
        self.pid = pid
        self.name = name
        self.src = src
        self.args = list(args)
        self.res = None      # worker result
        self.bin = None
        self.bin_san = None
        self.buildlog = ''
        self.dir = None

    @property
    def ok(self):
        return self.res is not None and self.res.get('outcome') == 'code'

    @property
    def m(self):
        return self.res['machine']

    @property
    def flags(self):
        return self.res['flags']

    def mtla(self):
        if not hasattr(self, '_mtla'):
            self._mtla = tlagen.machine_tla(self.m, self.flags)
        return self._mtla


def compile_programs(items, want=('machine', 'c'), nworkers=14, timeout=60):
    """items: list of (name, src, args). returns list of Prog (res filled)"""
    progs = [Prog(i, n, s, a) for i, (n, s, a) in enumerate(items)]
    jobs = [{'id': p.pid, 'src': p.src, 'args': p.args, 'name': 'p', 'want': list(want)} for p in progs]
    res = compiler.run_jobs(jobs, nworkers=nworkers, timeout=timeout)
    for p in progs:
        p.res = res[p.pid]
    return progs


def build_programs(progs, root, sanitize=False, also_plain=True, nthreads=14):
    def one(p):
        if not p.ok:
            return
        p.dir = os.path.join(root, 'p%d' % p.pid)
        if also_plain:
            p.bin, p.buildlog = cbuild.build(p.dir, p.res, 'p', sanitize=False)
        if sanitize:
            p.bin_san, log2 = cbuild.build(p.dir, p.res, 'p', sanitize=True)
            p.buildlog += log2
    with ThreadPoolExecutor(nthreads) as ex:
        list(ex.map(one, progs))


# ---------------------------------------------------------------------------
def _fall_closure(m, q, depth=6):
    seen = set()
    stack = [(q, 0)]
    while stack:
        s, d = stack.pop()
        if s in seen or s < 0 or s >= len(m['states']) or d > depth:
            continue
        seen.add(s)
        for t in m['states'][s]['trans']:
            if t['fall'] and t['tgt'] >= 0:
                stack.append((t['tgt'], d + 1))
            for a in t['acts']:
                for tg in _override_targets(a):
                    if tg >= 0:
                        stack.append((tg, d + 1))
    return seen


def _override_targets(a):
    if a['op'] in ('append', 'appendc'):
        return [a['ovf']]
    if a['op'] == 'break':
        return [a['to']] + [x for s in a['sub'] for x in _override_targets(s)]
    if a['op'] == 'cond':
        return [x for b in a['branches'] for s in b['acts'] for x in _override_targets(s)]
    return []


_cand_cache = {}


def candidate_bytes(m, q):
    key = (id(m), q)
    if key not in _cand_cache:
        _cand_cache[key] = _candidate_bytes(m, q)
    return _cand_cache[key]


def _candidate_bytes(m, q):
    """byte candidates leaving state q via non-error consuming transitions of its fall closure"""
    good = []
    for s in _fall_closure(m, q):
        st = m['states'][s]
        listed = set()
        for t in st['trans']:
            listed.update(t['on'])
        for t in st['trans']:
            if t['err'] or t['fall']:
                continue
            if t['on']:
                good.append(sorted(t['on']))
            if t['els']:
                rest = [b for b in range(256) if b not in listed]
                if rest:
                    good.append(rest)
    return good


def machine_alphabet(m):
    """bytes that occur explicitly in the machine + a few neighbours"""
    s = set()
    for st in m['states']:
        for t in st['trans']:
            if len(t['on']) <= 40:
                s.update(t['on'])
            else:
                on = sorted(t['on'])
                s.update(on[:2] + on[-2:])
    if not s:
        s = {97}
    extra = set()
    for b in list(s)[:6]:
        extra.add((b + 1) % 256)
    return sorted(s | extra | {0, 255, 0x80})


class DriverCrash(Exception):
    def __init__(self, data, rc):
        Exception.__init__(self, 'driver died (rc=%s) on input %r' % (rc, data))
        self.data = data
        self.rc = rc


def walk_inputs(p, nwalks, maxlen, rng, binary=None, noise=0.12, stop_on_terminal=True, crashes=None):
    """Guided random walks through the real binary, one byte per feed call, choosing each next byte from the
    transitions leaving the state the binary reports.  Returns list of byte strings.  A crash of the binary
    is recorded in `crashes` (list of (input, returncode)); the input that caused it is still returned."""
    import select
    m = p.m
    alpha = machine_alphabet(m)
    binary = binary or p.bin
    names = trace.rc_names(m)

    def spawn():
        return subprocess.Popen([binary], stdin=subprocess.PIPE, stdout=subprocess.PIPE, stderr=subprocess.DEVNULL, text=True, bufsize=1)

    class Dead(Exception):
        pass

    proc = spawn()

    def cmd(line):
        try:
            proc.stdin.write(line)
            proc.stdin.flush()
        except (BrokenPipeError, OSError):
            raise Dead()
        r, _, _ = select.select([proc.stdout], [], [], 10.0)
        if not r:
            raise Dead()
        out = proc.stdout.readline()
        if not out:
            raise Dead()
        return json.loads(out)

    inputs = []
    try:
        for w in range(nwalks):
            buf = bytearray()
            try:
                e = cmd('N\nS\n')
                q = e['q']
                L = rng.randint(1, maxlen)
                if e['rc'] != 0:
                    inputs.append(bytes(buf))
                    continue
                while len(buf) < L:
                    cands = candidate_bytes(m, q)
                    if cands and rng.random() > noise:
                        b = rng.choice(rng.choice(cands))
                    else:
                        b = rng.choice(alpha) if rng.random() < 0.8 else rng.randrange(256)
                    buf.append(b)
                    e = cmd('F %02x\n' % b)
                    q = e['q']
                    rc = names[e['rc']] if e['rc'] < len(names) else '?'
                    if rc.startswith('YIELD_') and e['adv'] == 0:
                        # byte not consumed: feed it again until consumed or terminal
                        for _ in range(8):
                            e = cmd('F %02x\n' % b)
                            q = e['q']
                            rc = names[e['rc']] if e['rc'] < len(names) else '?'
                            if not (rc.startswith('YIELD_') and e['adv'] == 0):
                                break
                    if stop_on_terminal and (rc in ('FAIL', 'DONE') or rc.startswith('FINISH_')):
                        if rng.random() < 0.7:
                            break
                inputs.append(bytes(buf))
            except Dead:
                try:
                    proc.kill()
                    proc.wait()
                except Exception:
                    pass
                if crashes is not None:
                    crashes.append((bytes(buf), proc.returncode))
                inputs.append(bytes(buf))
                proc = spawn()
    finally:
        try:
            proc.stdin.close()
            proc.wait(timeout=5)
        except Exception:
            proc.kill()
    return inputs


# ---------------------------------------------------------------------------
def compositions(n, rng=None, limit=None):
    """all compositions of n into positive parts as lists of chunk sizes (2^(n-1)); sampled if limit given"""
    if n == 0:
        return [[]]
    total = 1 << (n - 1)
    if limit is None or total <= limit:
        masks = range(total)
    else:
        masks = set([0, total - 1])
        while len(masks) < limit:
            masks.add(rng.randrange(total))
        masks = sorted(masks)
    out = []
    for mask in masks:
        parts = []
        cur = 1
        for i in range(n - 1):
            if mask >> i & 1:
                parts.append(cur)
                cur = 1
            else:
                cur += 1
        parts.append(cur)
        out.append(parts)
    return out


def feed_script(p, data, parts, with_end=True, with_free=True, reinvoke=True):
    """command script for one run: N S F.. [E] [X].  After a yield the driver cannot know the
    resume offset in advance, so chunk commands are generated assuming full consumption; the
    recorder (record_traces) re-slices on the fly instead - see run_one()."""
    raise NotImplementedError


class Recorder:
    """Runs the driver interactively so that re-invocation after yields and stopping after terminal
    codes follow the API contract (the caller looks at rc/adv like a real user would)."""

    def __init__(self, p, binary=None, timeout=4.0):
        self.p = p
        self.binary = binary or p.bin
        self.names = trace.rc_names(p.m)
        self.timeout = timeout
        self.proc = None
        self.indirect = bool(p.flags['INDIRECT_START_PTR'])
        self.has_end = bool(p.flags['EOF_SUPPORT'])
        self._start()

    def _start(self):
        env = dict(os.environ)
        env.setdefault('ASAN_OPTIONS', 'detect_leaks=1:exitcode=66')
        env.setdefault('UBSAN_OPTIONS', 'halt_on_error=1:exitcode=67')
        self.proc = subprocess.Popen([self.binary], stdin=subprocess.PIPE, stdout=subprocess.PIPE, stderr=subprocess.PIPE,
                                     text=True, bufsize=1, env=env)
        self.stderr_tail = ''

    def _cmd(self, line):
        import select
        try:
            self.proc.stdin.write(line + '\n')
            self.proc.stdin.flush()
        except (BrokenPipeError, OSError):
            return None
        r, _, _ = select.select([self.proc.stdout], [], [], self.timeout)
        if not r:
            return 'HANG'
        out = self.proc.stdout.readline()
        if not out:
            return None
        try:
            return json.loads(out)
        except Exception:
            return {'ev': 'garbage', 'text': out[:200]}

    def restart(self):
        try:
            self.proc.kill()
            try:
                self.stderr_tail = self.proc.stderr.read()[-3000:]
            except Exception:
                pass
            self.proc.wait()
        except Exception:
            pass
        self._start()

    def close(self):
        try:
            self.proc.stdin.close()
            self.proc.wait(timeout=5)
        except Exception:
            try:
                self.proc.kill()
            except Exception:
                pass

    def run(self, data, parts, with_end=True, with_free=True, post_terminal=0, continue_after_done=False):
        """Feed `data` split into chunk sizes `parts` (list summing to len(data)).
        Returns dict(script=[cmds], events=[driver events], status='ok'|'hang'|'died', consumed=n)."""
        script = ['N', 'S']
        events = []
        self.proc.stdin.write('N\n')
        e = self._cmd('S')
        if e in (None, 'HANG'):
            st = 'hang' if e == 'HANG' else 'died'
            self.restart()
            return {'script': script, 'events': events, 'status': st}
        events.append(e)
        terminal = self.names[e['rc']] if e['rc'] < len(self.names) else '?'
        terminal = terminal if terminal != 'OK' else None
        pos = 0
        for n in parts:
            if terminal:
                break
            chunk_end = pos + n
            cur = pos
            guard = 0
            reinvoke = False
            while cur < chunk_end or reinvoke or (n == 0 and guard == 0):
                guard += 1
                piece = data[cur:chunk_end]
                cmd = 'F ' + (piece.hex() if piece else '-')
                script.append(cmd)
                e = self._cmd(cmd)
                if e in (None, 'HANG'):
                    st = 'hang' if e == 'HANG' else 'died'
                    self.restart()
                    return {'script': script, 'events': events, 'status': st}
                events.append(e)
                rc = self.names[e['rc']] if e['rc'] < len(self.names) else '?'
                if rc == 'OK':
                    cur = chunk_end
                    break
                if rc.startswith('YIELD_'):
                    # documented usage (example/lexer_test.c): re-invoke with the pointer left as reported until OK,
                    # also when the pointer already reached the end of the chunk
                    adv = e['adv'] if e['adv'] >= 0 else len(piece)
                    cur += adv
                    reinvoke = True
                    if guard > 4 * (n + 2):
                        terminal = 'YIELD_LIVELOCK'
                        break
                    continue
                terminal = rc
                break
            pos = chunk_end
        # calls after a terminal result (C10: FAIL is absorbing)
        for k in range(post_terminal):
            if not terminal:
                break
            cmd = 'F ' + (data[-1:] or b'a').hex()
            script.append(cmd)
            e = self._cmd(cmd)
            if e in (None, 'HANG'):
                self.restart()
                return {'script': script, 'events': events, 'status': 'hang' if e == 'HANG' else 'died'}
            events.append(e)
        if with_end and self.has_end and (not terminal or post_terminal):
            script.append('E')
            e = self._cmd('E')
            if e in (None, 'HANG'):
                self.restart()
                return {'script': script, 'events': events, 'status': 'hang' if e == 'HANG' else 'died'}
            events.append(e)
        if with_free:
            script.append('X')
            e = self._cmd('X')
            if e in (None, 'HANG'):
                self.restart()
                return {'script': script, 'events': events, 'status': 'hang' if e == 'HANG' else 'died'}
            events.append(e)
        return {'script': script, 'events': events, 'status': 'ok', 'terminal': terminal}


# ---------------------------------------------------------------------------
APITRACE_CFG = 'SPECIFICATION Spec\nCHECK_DEADLOCK FALSE\n'


def run_sharded(spec, cases, render_case, machine_of, parallel=4, workers=4, timeout=1500, max_bytes=2_500_000,
                cfg=APITRACE_CFG):
    """Generic sharded TLC run.  cases: list; render_case(case) -> TLA text of the case record *without* the
    machine (it must contain the placeholder @MI@ for the machine index); machine_of(case) -> machine TLA text.
    Returns (reports_by_case: list of lists, stats)."""
    rendered = [render_case(c) for c in cases]
    order = sorted(range(len(cases)), key=lambda i: -len(rendered[i]))
    # use all `parallel` TLC processes even when everything would fit one module: cap the shard size at total/parallel
    total = sum(len(r) for r in rendered) + sum(len(t) for t in set(machine_of(c) for c in cases))
    max_bytes = max(60_000, min(max_bytes, total // max(1, parallel) + 1))
    shards = []       # each: dict(idx=[...], size=int, machines={text: idx})
    for i in order:
        sz = len(rendered[i])
        mt = machine_of(cases[i])
        placed = False
        for sh in shards:
            extra = 0 if mt in sh['machines'] else len(mt)
            if sh['size'] + sz + extra <= max_bytes:
                sh['idx'].append(i)
                sh['size'] += sz + extra
                sh['machines'].setdefault(mt, len(sh['machines']) + 1)
                placed = True
                break
        if not placed:
            shards.append({'idx': [i], 'size': sz + len(mt), 'machines': {mt: 1}})
    stats = {'states': 0, 'transitions': 0, 'runs': 0, 'wall': 0.0, 'errors': [], 'shards': len(shards)}
    reports = [[] for _ in cases]

    def run_shard(sh):
        mtexts = [None] * len(sh['machines'])
        for t, k in sh['machines'].items():
            mtexts[k - 1] = t
        parts = [rendered[i].replace('@MI@', str(sh['machines'][machine_of(cases[i])])) for i in sh['idx']]
        mod = ('---- MODULE CasesData ----\nEXTENDS Integers, Sequences, TLC\nMachines == <<\n%s\n>>\nCases == <<\n%s\n>>\n====\n'
               % (',\n'.join(mtexts), ',\n'.join(parts)))
        r = tlc.run_tlc(spec, cfg, {'CasesData': mod}, workers=workers, timeout=timeout)
        sh['wall'] = round(r.wall, 1)
        sh['bytes'] = len(mod)
        return sh, r

    t0 = time.time()
    with ThreadPoolExecutor(max(1, min(parallel, len(shards) or 1))) as ex:
        results = list(ex.map(run_shard, shards))
    for sh, res in results:
        stats['runs'] += 1
        stats['states'] += res.distinct
        stats['transitions'] += res.generated
        if not res.ok:
            stats['errors'].append(res.error or ('timeout' if res.timeout else res.stdout[-1500:]))
        for rep in res.reports:
            if 'cid' in rep and 1 <= rep['cid'] <= len(sh['idx']):
                reports[sh['idx'][rep['cid'] - 1]].append(rep)
            elif rep.get('kind') == 'UNPARSED':
                stats['errors'].append('unparsed report line: ' + rep.get('text', '')[:300])
    stats['wall'] = time.time() - t0
    stats['shard_walls'] = [(sh.get('wall'), sh.get('bytes'), len(sh['idx'])) for sh, _ in results]
    return reports, stats


def validate_traces(cases, base='ApiTrace', cfg=APITRACE_CFG, shards=4, workers=4, timeout=1200, max_bytes=2_500_000):
    """cases: list of dict(key=..., mtla=<text>, T=[events]).  Runs TLC over shards in parallel.
    returns (verdicts: {key: ('ACCEPT'|'REJECT'|'SKIP'|'NONE', report)}, stats dict)."""
    reports, stats = run_sharded(base, cases, lambda c: '[mi |-> @MI@,\n T |-> %s]' % tlagen.tla(c['T']), lambda c: c['mtla'],
                                 parallel=shards, workers=workers, timeout=timeout, max_bytes=max_bytes, cfg=cfg)
    verdicts = {}
    for c, reps in zip(cases, reports):
        v = ('NONE', None)
        for rep in reps:
            if rep.get('kind') in ('ACCEPT', 'REJECT', 'SKIP'):
                v = (rep['kind'], rep)
        verdicts[c['key']] = v
    return verdicts, stats


def validate_sweeps(cases, workers=4, parallel=4, timeout=1500, max_bytes=2_500_000):
    """cases: list of dict(key, mtla, S=[sweeps]); a case may be split by the caller to bound its size.
    returns (list of (verdict, reports) per case, stats)"""
    def render(c):
        sw2 = [{k: v for k, v in s.items() if k != 'ctx'} for s in c['S']]
        return '[mi |-> @MI@,\n S |-> %s]' % tlagen.tla(sw2)
    reports, stats = run_sharded('StepTrace', cases, render, lambda c: c['mtla'], parallel=parallel, workers=workers,
                                 timeout=timeout, max_bytes=max_bytes)
    out = []
    for c, reps in zip(cases, reports):
        kinds = [r.get('kind') for r in reps]
        v = 'REJECT' if 'REJECT' in kinds else ('ACCEPT' if 'ACCEPT' in kinds else 'NONE')
        out.append((v, reps))
    return out, stats
