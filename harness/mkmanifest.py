#!/usr/bin/env python3
"""Regenerate /verif/MANIFEST.json from the table below and validate it against the schema."""
import json, os, sys
ROOT = os.path.dirname(os.path.dirname(os.path.abspath(__file__)))

CHECKS = {
    'C06': dict(
        category='model_checking', design_ref='6/C06',
        text='Trace validation of the emitted C against the TLA+ machine specification (NmfuMachine) at two grains: StepTrace validates, for '
             'every state index of every program under forced data contexts, the outcome of every single byte 0..255 and of end(); ApiTrace '
             'validates guided multi-byte walks call by call (return code, pointer advance, state index, every output cell, hook calls with '
             'snapshots). TLC evaluates the specification for each recorded step, so the binding is exact per step and exhaustive over symbols. Inputs are guided walks plus specification-guided inputs: Cover.tla (TLC, breadth first) yields the shortest input reaching every distinguishable single step (state, symbol cell, successor, result, events, changed outputs - e.g. each out-of-space redirect) of each exported machine, and those are replayed on the binary.',
        note='Programs are the repository corpus plus seeded generated programs (not all programs); data contexts are sampled; steps whose '
             'arithmetic is undefined in C are skipped and counted; values beyond 32 bits are evaluated exactly by the limb model NmfuWide. Trusted: TLC, gcc, the exporter (reads DfaCompileCtx.dfa as data) and the C driver.',
        technique='TLA+ machine spec + TLC trace validation (single-step sweeps and call traces)', thorough=True),
    'C02': dict(
        category='model_checking', design_ref='6/C02',
        text='Every run of one (program, input) under every chunking (all 2^(n-1) compositions for short inputs; whole, all-ones, every single '
             'cut point and random splits for long ones; direct, indirect and yield builds) is validated by TLC against the same deterministic, '
             'byte-at-a-time machine specification, which has exactly one behaviour per input: acceptance of all chunkings implies identical '
             'observables. The chunking-independent summary (hooks with snapshots, codes with absolute offsets, final outputs) is also compared directly. Inputs are guided walks plus specification-guided inputs: Cover.tla (TLC, breadth first) yields the shortest input reaching every distinguishable single step (state, symbol cell, successor, result, events, changed outputs - e.g. each out-of-space redirect) of each exported machine, and those are replayed on the binary.',
        note='Chunk independence of the specification itself holds by construction (ByteStep is per byte); programs and inputs are sampled. '
             'Direct-pointer builds expose no consumed count.',
        technique='TLC trace validation of all chunkings against one deterministic TLA+ machine spec', thorough=True),
    'C03': dict(
        category='model_checking', design_ref='6/C03',
        text='The TLA+ store models every string cell by cell (buffer cells, counter, allocation cell inline/heap/null) for all storage modes. '
             'MachineMC explores each exported machine and reports null/freed dereferences and breaches of the capacity contract; ApiTrace and StepTrace '
             'validate sanitizer builds so that after every call (and from forced empty/near-full/full contexts for every byte) each buffer, counter, '
             'terminator and pointer state equals the specification cell, and _free releases every block exactly once. Inputs are guided walks plus specification-guided inputs: Cover.tla (TLC, breadth first) yields the shortest input reaching every distinguishable single step (state, symbol cell, successor, result, events, changed outputs - e.g. each out-of-space redirect) of each exported machine, and those are replayed on the binary.',
        note='A TLA+ specification cannot state that C text is free of undefined behaviour: clang ASan + memory-related UBSan checks + LSan act as an external '
             'tripwire inside the trace recorder (an abort truncates the trace, which is then a violation). Arithmetic UB of user expressions is outside the property. '
             'malloc is assumed not to fail.',
        technique='TLA+ cell-level memory model checked by TLC + trace validation of sanitizer builds', thorough=True),
    'C10': dict(
        category='model_checking', design_ref='6/C10',
        text='MachineMC: TLC explores every exported machine under the API protocol over all symbol cells (bounded length), including end() at any point and '
             'calls after FAIL, reporting OK-without-consuming and FAIL-not-absorbing steps, each replayed on the binary before it counts. ApiTrace validates recorded '
             'call histories (all chunkings of short inputs, re-invocation after every yield as example/lexer_test.c does, calls after terminal results, end) '
             'clause by clause: return code and *start after every call against the consumed-byte count of the specification. Inputs are guided walks plus specification-guided inputs: Cover.tla (TLC, breadth first) yields the shortest input reaching every distinguishable single step (state, symbol cell, successor, result, events, changed outputs - e.g. each out-of-space redirect) of each exported machine, and those are replayed on the binary.',
        note='Length-bounded exploration; "DONE/finish codes exactly when the program finishes" is decided against the machine here and against the source semantics in C01. '
             'Calls after DONE are unconstrained (property text).',
        technique='TLC exploration of the API protocol over exported machines + TLC trace validation of call histories', thorough=True),
    'C12': dict(
        category='model_checking', design_ref='6/C12',
        text='One program and input set, binaries for every row of a covering array (pairs quick, triples thorough) over storage mode, char/u8, hook placement, '
             'user pointer, packed enums, guard style, pointer mode, zero-length support and range-collapse threshold. Each trace is validated by TLC against the '
             'specification of its own build (whose store models the representation), and the representation-independent observables are compared across rows. Inputs are guided walks plus specification-guided inputs: Cover.tla (TLC, breadth first) yields the shortest input reaching every distinguishable single step (state, symbol cell, successor, result, events, changed outputs - e.g. each out-of-space redirect) of each exported machine, and those are replayed on the binary.',
        note='Covering array, not all subsets; programs and inputs sampled.',
        technique='TLC trace validation per option row + cross-row comparison of observables', thorough=True),
    'C19': dict(
        category='model_checking', design_ref='6/C19',
        text='NmfuFlags.tla transcribes the resolution algorithm (level, explicit overrides, implication fixpoint, exclusion pass) with its own metadata table. '
             'TLC enumerates every on/off/absent assignment of the eleven related flags x every -O level (3^11 x 4 = 708588 cases; quick: a 1/6 stride picked by the seed) '
             'and all 3^5 x 4 optimisation-flag cases, checks on each case: implied flags on, exclusive never both, explicit conflict is an error, explicit beats level, '
             'levels cumulative, independence of the order of distinct flags; the real load_commandline_flags is run on the same command lines (canonical, reversed, shuffled; '
             'mixed spellings) and must yield exactly the configuration or error the specification prescribes. Malformed/unknown options must be diagnosed. NmfuArgv.tla gives the meaning of the whole command line token by token (every option of --help in short and long form with good and bad values, positional input, derived and explicit output name, dump kinds and prefix, dry run, help/version, generation options); TLC enumerates every command line of three argv strings over a 42-string alphabet and of four over a 22-string one and the real function must produce the prescribed outcome class and configuration.',
        note='Exhaustive over the related flags in the thorough tier; argument order is covered by reversal, rotation, all permutations of up to four flags (in TLC) and shuffles (conformance).',
        technique='TLA+ specification of flag resolution and of the token-level command line, TLC exhaustive enumeration + conformance of the real function on every enumerated command line', thorough=True),
    'C01': dict(
        category='model_checking', design_ref='6/C01',
        text='Conform.tla: TLC explores the product of the machine exported from the real compiler (at -O0..-O3) and NmfuLang, an independent TLA+ reading of the '
             'language reference (Antimirov-derivative matchers, continuation-stack semantics of case/optional/loop/break/try/foreach/if/wait/finish/yield, handlers, '
             'exactly the timing freedom the property grants), keeping the set of Lang configurations consistent with every hook call (with output snapshot), yield, '
             'status and final outputs the machine produced. A symbol after which that set is empty is a violation with the input history as witness, replayed on the C binary.',
        note='Generated programs (seeded) plus the bounded-exhaustive family (every statement program of a compact grammar with <= 3 nodes in the thorough tier, strided slices otherwise) up to a per-program input-length bound over one representative per symbol cell; the oracle is permissive at the open points OP1-OP8 of DESIGN.md; '
             'data effects of actions reuse the machine specification (decided by C14/C15); C06 binds the binary to the machine.',
        technique='TLC product exploration: exported DFA x TLA+ source semantics (candidate-set refinement)', thorough=True),
    'C05': dict(
        category='model_checking', design_ref='6/C05',
        text='Equiv.tla: per program TLC explores the product of the -O0 machine and the machine compiled with the optimisation under test (levels, single flags, thresholds; thorough: all 32 flag subsets) '
             'over all joint symbol cells, comparing the strict event streams (hooks with exposed outputs, yields), the status after every symbol and the final outputs, allowing exactly a one-symbol '
             'shift of between-bytes actions (and of the terminal status they produce). Compiler verdicts must also agree. Witnesses are replayed on both binaries.',
        note='Length-bounded product search on generated and corpus programs and on the bounded-exhaustive family (every statement program of a compact grammar with <= 3 nodes in the thorough tier, -O0 against -O3 and alternately -O1 / -O2); code-generation-only optimisations (range collapsing) are bound to the machine by C06, which runs -O2/-O3 builds.',
        technique='TLC bisimulation-with-slack of two exported machines', thorough=True),
    'C04': dict(
        category='model_checking', design_ref='6/C04',
        text='MachineMC.tla: TLC explores every exported machine over all symbol cells and end-of-input with the data store in the state and reports symbols whose dispatch '
             'exceeds the fuel of non-consuming moves (fall-through, condition branches, out-of-space redirects, breaks) and yield sequences that never consume; each report is '
             'confirmed on the binary under a wall-clock limit. Reject side: generated loops that may or may not consume; whenever the TLA+ source semantics (NmfuLang) can go round '
             'without consuming, or the machine spins, the compiler must have rejected the program. All C runs are wall-clock guarded.',
        note='Length-bounded exploration over sampled programs and the bounded-exhaustive family (all nestings of the control constructs up to 3 nodes in the thorough tier); the fuel bound (64 moves) stands for "unbounded"; one accepted class is a recorded known finding (out-of-space handler re-entering the appending construct).',
        technique='TLC exploration of non-consuming cycles in exported machines + source-semantics zero-progress detection', thorough=True),
    'C07': dict(
        category='model_checking', design_ref='6/C07',
        text='For every regex AST of size <= 3 over {a, b, [ab], [^a], ., \\d} and all operators (sampled in quick), random larger ones and a fixed set of corner regexes (wildcards/inverted sets at end-of-input, '
             'binary ranges touching 0x00/0xff) TLC explores the product of the compiled matcher with the Antimirov partial-derivative automaton of the AST (NmfuRegex.tla, own class tables) over all '
             'symbol cells of 0..255 and end-of-input: mismatch exactly when the derivative set dies, completion exactly when it is finished, hand-over to a sentinel statement exactly for members. '
             'The emitted C matcher of a subset is bound to the machine by single-step sweeps over all 256 bytes and end().',
        note='Exact per regex (closed product search); the set of regexes is enumerated to size 3 and sampled beyond. The regex source text is printed by the generator from the AST, parsed by the real front end.',
        technique='TLC product: compiled matcher x Antimirov derivative automaton in TLA+', thorough=True),
    'C08': dict(
        category='model_checking', design_ref='6/C08',
        text='Conform.tla on generated case / greedy-case programs whose clauses carry distinct markers: the Lang case frame runs all clause patterns in parallel as derivative sets, takes else / no-match '
             'exactly when no pattern continues and none matched (at the offending symbol) and resolves greedy cases by maximal munch then priority; plus single-step sweeps of the emitted C.',
        note='Generated pattern sets; one known finding (greedy action-only clause fires early) is pinned and its class excluded from random generation.',
        technique='TLC product: exported machine x TLA+ case semantics with parallel derivative sets', thorough=True),
    'C16': dict(
        category='model_checking', design_ref='6/C16',
        text='Conform.tla on generated wait programs (bare, in try blocks, in loops, under foreach; literal, case-insensitive, regex, concatenated patterns) compiled with EOF support: the Lang wait frame is the '
             'restart automaton built from derivatives and never raises, so a machine that fails, enters a handler or lets end-of-input escape during a wait has no explanation; plus sweeps of the emitted C.',
        note='Length-bounded product search on sampled patterns.',
        technique='TLC product: exported machine x restart automaton semantics in TLA+', thorough=True),
    'C17': dict(
        category='model_checking', design_ref='6/C17',
        text='Conform.tla with END as a symbol on programs compiled with EOF support (`end` in match, case and wait positions, in handlers, followed by actions and finish codes): after every explored input the '
             'result of <parser>_end and the actions it runs are compared with the Lang end-of-input step; END is in no data class and `end` matches no byte (NmfuRegex); the C _end of every state is swept against the machine.',
        note='Permissive at OP1/OP4 (trailing lookahead constructs, strict-done): there FAIL is admitted where the program has logically ended.',
        technique='TLC product with end-of-input as a symbol + single-step sweeps of _end', thorough=True),
    'C09': dict(
        category='model_checking', design_ref='6/C09',
        text='LangMC.tla: for every generated program the real compiler ACCEPTED (statement pairs A;B with lookahead-terminated A, greedy cases with shared finishing strings and drawn priorities, case pattern sets, '
             'general programs), TLC explores the TLA+ source semantics over all symbol cells and evaluates the language-theoretic predicate Ambiguous at every reachable decision point and every next symbol '
             '(derivative sets for clause patterns, strong first sets over the continuation stack for "what follows"); priority ties are detected at the decision itself.',
        note='Direction accepted => unambiguous only (the compiler may reject more). else clauses, wait skipping and handlers are fall-backs, not competing continuations (OP3); inside a greedy case a symbol that continues a pattern is consumed (maximal munch), which is its documented meaning and not an ambiguity. Length-bounded over sampled programs and the bounded-exhaustive family.',
        technique='TLC exploration of TLA+ source semantics with a language-theoretic ambiguity predicate', thorough=True),
    'C11': dict(
        category='other', design_ref='6/C11',
        text='Rows of a covering array (pairs quick, triples thorough) over 15 code-generation flags/options are replayed through the real compiler for programs covering every output type, action and node kind. '
             'gcc -std=c99/-std=c11 -Wall -Werror -Wno-unused-label on the source and g++ on a header-only translation unit (also included twice) decide validity; the symbol table extracted from every header is '
             'validated by TLC against ApiSpec.tla (start/feed always, end iff EOF support, free iff dynamic memory, hooks as prototypes or members, one enumerator per declared code); verdicts must not depend on the row.',
        note='Validity of C text is decided by gcc/g++ acting as the replay oracle, not by TLA+; the TLA+ part decides which API must exist for each resolved configuration. Covering array, not all subsets. '
             'Warnings about the user\'s own expressions (-Wtautological-compare, -Wbool-compare) are excluded.',
        technique='covering-array replay + gcc/g++ oracle + TLC validation of header symbol tables against a TLA+ API spec', thorough=True),
    'C13': dict(
        category='model_checking', design_ref='6/C13',
        text='The generator emits, from one AST, a program using macros (nested calls; macro, hook, out, match, expr, loop, finishcode arguments; swap-style calls whose argument names coincide with parameter names) '
             'and its hand-inlined twin. Equiv.tla without slack: the two compiled machines must agree on every event, status and output for all inputs explored; Conform.tla: the macro machine against the Lang reading of the inlined AST; '
             'compiler verdicts must agree; wrong arity / wrong kind calls must be diagnosed.',
        note='Macro families are templates with random parameters; yieldcode arguments are not generated.',
        technique='TLC bisimulation (no slack) of macro vs hand-inlined machine + Conform', thorough=True),
    'C14': dict(
        category='model_checking', design_ref='6/C14',
        text='Random typed expression trees (all operators and atoms) are printed with minimal parentheses into assignment / character-append / conditional-action / condition-point positions and compiled by the real compiler. '
             'In the exported machine the expression is replaced by the generator\'s own tree; StepTrace then validates the C binary against NmfuExpr.Eval (C semantics: promotion, usual arithmetic conversions, truncating division, '
             'short-circuit logic, store conversion, bounds-checked indexing) from forced operand contexts and 22 values of $last. A smaller set also goes through Conform.',
        note='Values beyond signed 32 bits (unsigned 32-bit wrap-around, 64-bit operands, constants of type long) are evaluated exactly by the limb model NmfuWide (self-tested against Python integers by harness/tests/test_wide.py); constants beyond 64 bits are not modelled. Undefined C evaluations are skipped (a driver-side SIGFPE guard keeps the recorder alive).',
        technique='TLC trace validation of C against a TLA+ C-arithmetic evaluator on generator-owned expression trees', thorough=True),
    'C15': dict(
        category='model_checking', design_ref='6/C15',
        text='The generator chooses byte strings / values and spells them (escapes, raw characters, hex pairs, char constants, decimal/hex/binary integers); the Lang program keeps the intended bytes. Conform.tla decides through the real front end '
             'that matches accept exactly those bytes (case-insensitive: either ASCII case) and fail at the first differing byte, and that assignments, defaults and constants hold exactly those bytes/values; single-step sweeps bind the emitted C. '
             'Every byte 0..255 appears in match, casei match, binary match, assignment and default position.',
        note='Multi-byte literals are sampled; regex-literal bytes are limited to printable characters.',
        technique='TLC product (Conform) on generator-spelled literals + single-step sweeps of emitted C', thorough=True),
    'C18': dict(
        category='exploration', design_ref='6/C18',
        text='Every compile call of the run (a catalogue of 70 one-rule-at-a-time edge cases, random mutations of generated programs, all generator families, the corpus incl. *.fail.nmfu) is recorded and validated by TLC against '
             'CompileTrace.tla, whose alphabet of outcomes is {code, diagnosed error with renderable message} and {diagnosed} alone where the static rules require a diagnosis; internal exceptions, unrenderable errors and time-outs are rejected.',
        note='The quantifier over all sources is sampled (exploration) except for the bounded-exhaustive family (all statement programs of a compact grammar with <= 3 nodes in the thorough tier); option sets: every flag alone and every ordered pair of code-generation flags on/off; per-compilation limit 240 s.',
        technique='TLC trace validation of compile events against an outcome-alphabet spec', thorough=True),
    'C20': dict(
        category='model_checking', design_ref='6/C20',
        text='Each program is compiled alone in a fresh process (PYTHONHASHSEED=0), in fresh processes with other hash seeds, after unrelated compilations with garbage objects kept alive, twice in a row, and in one long-lived process; '
             'verdicts must be identical and every machine must be observationally equivalent to the reference - decided by TLC bisimulation (Equiv.tla, no slack), never by comparing emitted text.',
        note='Address-dependent behaviour is probed by perturbation, not enumerated. The emitted C is covered for compilations late in a long-lived process: those binaries are bound to the machine exported by the same call by TLC trace validation (StepTrace sweeps, ApiTrace whole-chunk traces).',
        technique='TLC bisimulation of machines from perturbed compilation histories + TLC trace validation of the C emitted by compilations with a history', thorough=True),
}

NOT_YET = 'check not built yet in this session (specification work in progress); see DESIGN.md section 12'
NOT_APPLICABLE = {}


def main():
    props = [json.loads(l)['id'] for l in open(os.path.join(ROOT, 'properties.jsonl'))]
    checks = []
    for pid in props:
        if pid not in CHECKS:
            continue
        c = CHECKS[pid]
        e = {
            'property_id': pid,
            'quick_cmd': 'harness/check %s --tier quick' % pid,
            'evidence_file': '/verif/evidence/%s.json' % pid,
            'replay_cmd_template': 'harness/check %s --replay {path}' % pid,
            'engine': 'nmfu-tla',
            'level_claimed': {'category': c['category'], 'text': c['text'], 'design_ref': c['design_ref']},
            'level_note': c['note'],
            'technique': c['technique'],
        }
        if c.get('thorough'):
            e['thorough_cmd'] = 'harness/check %s --tier thorough' % pid
        checks.append(e)
    na = []
    for pid in props:
        if pid not in CHECKS:
            na.append({'property_id': pid, 'reason': NOT_APPLICABLE.get(pid, NOT_YET)})
    man = {
        'version': 1,
        'setup_cmd': 'harness/setup.sh',
        'hooks': {'guard': 'NMFU_VERIF', 'enable': 'no source hooks are needed: checks import nmfu from /repo in fresh subprocesses (env NMFU_VERIF=1 is set but unused by the code)',
                  'baseline_off_cmd': 'cd /repo && /venv/bin/python -m pytest -ra -q -p no:cacheprovider --timeout=900 --continue-on-collection-errors',
                  'source_commits': [], 'add_only': True},
        'engines': [{'name': 'nmfu-tla', 'path': '/verif/harness/check', 'serves_properties': sorted(CHECKS),
                     'kind_free_text': 'TLA+ specification (spec/*.tla) checked by TLC; bound to the implementation by exporting the real compiler\'s DFA as a TLC constant and by trace validation of the emitted C'}],
        'checks': checks,
        'not_applicable': na,
        'notes': 'Genuine defects repaired by fix: commits in /repo are listed in known_findings.txt.',
    }
    with open(os.path.join(ROOT, 'MANIFEST.json'), 'w') as f:
        json.dump(man, f, indent=1)
    try:
        import jsonschema
        jsonschema.validate(man, json.load(open('/root/.vp/MANIFEST.schema.json')))
        print('MANIFEST.json valid; %d checks, %d not applicable' % (len(checks), len(na)))
    except ImportError:
        print('jsonschema not available; wrote MANIFEST.json unvalidated')


if __name__ == '__main__':
    main()
