#!/usr/bin/env python3
"""Regenerate /verif/MANIFEST.json from the table below and validate it against the schema."""
import json, os, sys
ROOT = os.path.dirname(os.path.dirname(os.path.abspath(__file__)))

CHECKS = {
    'C06': dict(
        category='model_checking', design_ref='6/C06',
        text='Trace validation of the emitted C against the TLA+ machine specification (NmfuMachine) at two grains: StepTrace validates, for '
             'every state index of every program under forced data contexts, the outcome of every single byte 0..255 and of end(); ApiTrace '
             'validates guided multi-byte walks call by call (return code, pointer advance, state index, every output cell, hook calls with '
             'snapshots). TLC evaluates the specification for each recorded step, so the binding is exact per step and exhaustive over symbols.',
        note='Programs are the repository corpus plus seeded generated programs (not all programs); data contexts are sampled; steps whose '
             'arithmetic leaves the modelled 32-bit range are skipped and counted. Trusted: TLC, gcc, the exporter (reads DfaCompileCtx.dfa as data) and the C driver.',
        technique='TLA+ machine spec + TLC trace validation (single-step sweeps and call traces)', thorough=True),
}

NOT_YET = 'check not built yet in this session (specification work in progress); see DESIGN.md section 12'
NOT_APPLICABLE = {}


def main():
    props = [json.loads(l)['id'] for l in open(os.path.join(ROOT, 'properties.jsonl'))]
    checks = []
    for pid in props:
        if pid not in CHECKS:
            continue
        c = CHECKS[pid]
        e = {
            'property_id': pid,
            'quick_cmd': 'harness/check %s --tier quick' % pid,
            'evidence_file': '/verif/evidence/%s.json' % pid,
            'replay_cmd_template': 'harness/check %s --replay {path}' % pid,
            'engine': 'nmfu-tla',
            'level_claimed': {'category': c['category'], 'text': c['text'], 'design_ref': c['design_ref']},
            'level_note': c['note'],
            'technique': c['technique'],
        }
        if c.get('thorough'):
            e['thorough_cmd'] = 'harness/check %s --tier thorough' % pid
        checks.append(e)
    na = []
    for pid in props:
        if pid not in CHECKS:
            na.append({'property_id': pid, 'reason': NOT_APPLICABLE.get(pid, NOT_YET)})
    man = {
        'version': 1,
        'setup_cmd': 'harness/setup.sh',
        'hooks': {'guard': 'NMFU_VERIF', 'enable': 'no source hooks are needed: checks import nmfu from /repo in fresh subprocesses (env NMFU_VERIF=1 is set but unused by the code)',
                  'baseline_off_cmd': 'cd /repo && /venv/bin/python -m pytest -ra -q -p no:cacheprovider --timeout=900 --continue-on-collection-errors',
                  'source_commits': [], 'add_only': True},
        'engines': [{'name': 'nmfu-tla', 'path': '/verif/harness/check', 'serves_properties': sorted(CHECKS),
                     'kind_free_text': 'TLA+ specification (spec/*.tla) checked by TLC; bound to the implementation by exporting the real compiler\'s DFA as a TLC constant and by trace validation of the emitted C'}],
        'checks': checks,
        'not_applicable': na,
        'notes': 'Genuine defects repaired by fix: commits in /repo are listed in known_findings.txt.',
    }
    with open(os.path.join(ROOT, 'MANIFEST.json'), 'w') as f:
        json.dump(man, f, indent=1)
    try:
        import jsonschema
        jsonschema.validate(man, json.load(open('/root/.vp/MANIFEST.schema.json')))
        print('MANIFEST.json valid; %d checks, %d not applicable' % (len(checks), len(na)))
    except ImportError:
        print('jsonschema not available; wrote MANIFEST.json unvalidated')


if __name__ == '__main__':
    main()
