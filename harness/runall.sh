#!/bin/sh
# run every registered quick (or thorough) check once; usage: runall.sh [tier] [seed]
T=${1:-quick}
S=${2:-1}
cd "$(dirname "$0")/.." || exit 2
for p in C01 C02 C03 C04 C05 C06 C07 C08 C09 C10 C11 C12 C13 C14 C15 C16 C17 C18 C19 C20; do
  t0=$(date +%s)
  VERIF_SEED=$S timeout 7200 harness/check $p --tier $T > /tmp/runall_${p}_$S.log 2>&1
  rc=$?
  t1=$(date +%s)
  echo "$p seed=$S tier=$T rc=$rc wall=$((t1-t0))s $(grep -c '^VIOLATION' /tmp/runall_${p}_$S.log) violations; $(grep -c '^KNOWN-FINDING' /tmp/runall_${p}_$S.log) known; $(grep -c '^MACHINERY' /tmp/runall_${p}_$S.log) machinery"
  grep -A1 '^VIOLATION\|^MACHINERY' /tmp/runall_${p}_$S.log | head -4 | cut -c1-300
done
