#!/bin/sh
# usage: seedimport.sh <agent-worktree> <property> <new-seed-id> [k]
# Copies <worktree>/_seed/<k>/{patch.diff,demo.py,notes.md} to /verif/seeded/<new-seed-id>/ and confirms the claims in a scratch copy of
# /repo's tree: patch applies, pinned suite passes with it, demo fails with it and passes without it.  Prints one line per step.
WT=$1; P=$2; ID=$3; K=${4:-1}
D=/verif/seeded/$ID
mkdir -p "$D"
cp "$WT/_seed/$K/patch.diff" "$WT/_seed/$K/demo.py" "$WT/_seed/$K/notes.md" "$D/" || exit 2
W=$(mktemp -d /tmp/seedimp.XXXXXX)
trap 'rm -rf "$W"' EXIT
mkdir -p "$W/repo"
(cd /repo && git ls-files -z | xargs -0 cp --parents -t "$W/repo") || exit 2
cd "$W/repo" && git init -q . && git add -A >/dev/null 2>&1 && git -c user.email=x -c user.name=x commit -q -m base >/dev/null
mkdir -p _seed/$K && cp "$D/demo.py" _seed/$K/
timeout 300 /venv/bin/python _seed/$K/demo.py "$W/repo" > "$W/demo0.log" 2>&1; echo "$ID demo pristine rc=$?"
git apply "$D/patch.diff" || { echo "$ID patch does not apply"; exit 2; }
timeout 300 /venv/bin/python _seed/$K/demo.py "$W/repo" > "$W/demo1.log" 2>&1; echo "$ID demo patched rc=$? : $(tail -2 $W/demo1.log | cut -c1-200 | tr '\n' ' ')"
timeout 900 /venv/bin/python -m pytest -q -p no:cacheprovider --timeout=900 -x 2>&1 | tail -1 | sed "s/^/$ID pytest patched: /"
