#!/usr/bin/env python3
"""Sweep the bounded-exhaustive program family outside the registered checks (exploration aid, e.g. under `vp run`):
   enumsweep.py <maxsize> <stride> <offset> [maxlen] [minsize] [A|B = dialect]
compiles every selected program, reports compiler crashes, and runs Conform (source semantics), LangMC (ambiguity) and
MachineMC (spin / stall) over the accepted ones.  Prints one REPORT block per program with a report."""
import sys, os, time, collections
HERE = os.path.dirname(os.path.abspath(__file__))
sys.path.insert(0, HERE)
if os.environ.get('PYTHONHASHSEED') != '0':
    os.environ['PYTHONHASHSEED'] = '0'
    os.execv(sys.executable, [sys.executable] + sys.argv)
import runner, conform, mc  # noqa: E402
from gen import enumprog    # noqa: E402
from props import c09       # noqa: E402

maxsize, stride, offset = int(sys.argv[1]), int(sys.argv[2]), int(sys.argv[3])
maxlen = int(sys.argv[4]) if len(sys.argv) > 4 else 7
minsize = int(sys.argv[5]) if len(sys.argv) > 5 else 1
t = time.time()
items, asts = [], []
dialect = sys.argv[6] if len(sys.argv) > 6 else 'A'
for idx, name, ast, src, args in (enumprog.programs2 if dialect == 'B' else enumprog.programs)(maxsize, stride=stride, offset=offset, minsize=minsize):
    items.append((name, src, args))
    asts.append(ast)
progs = runner.compile_programs(items, want=('machine', 'codegen'))
print(len(items), 'compiled', round(time.time() - t, 1), collections.Counter(p.res.get('outcome') for p in progs), flush=True)
for p in progs:
    if p.res['outcome'] in ('internal_error', 'timeout'):
        print('INTERNAL', p.name, p.args, p.res.get('errclass'), (p.res.get('msg') or '')[:200])
        print(p.src[p.src.index('parser'):], flush=True)


def body(p):
    return p.src[p.src.index('parser'):]


pairs = [(p, a) for p, a in zip(progs, asts) if p.ok and not a.get('known_class') and not a.get('op8')]
reports, st, cases = conform.explore(pairs, maxlen=maxlen, timeout=20000)
print('conform', round(time.time() - t, 1), {k: v for k, v in st.items() if k not in ('errors', 'shard_walls')}, st['errors'][:2], flush=True)
kinds = collections.Counter()
shown = collections.Counter()
for (p, a), reps in zip(pairs, reports):
    for r in reps:
        kinds[r['kind']] += 1
    v = [r for r in reps if r['kind'] not in ('OP1',)]
    if v:
        r = min(v, key=lambda x: len(x['hist']))
        shown[r['kind']] += 1
        if shown[r['kind']] <= 25:
            print('REPORT conform', r['kind'], r.get('why'), p.name, p.args, r['hist'], r.get('mres'), [e.get('n', e.get('code')) for e in r.get('mev', [])])
            print(body(p), flush=True)
print('conform kinds', dict(kinds), flush=True)

allok = [(p, a) for p, a in zip(progs, asts) if p.ok]
reports, st, cases = c09.explore(allok, maxlen, 20000)
print('langmc', round(time.time() - t, 1), {k: v for k, v in st.items() if k not in ('errors', 'shard_walls')}, st['errors'][:2], flush=True)
n = 0
for (p, a), reps in zip(allok, reports):
    v = [r for r in reps if r['kind'] == 'AMBIGUOUS']
    if v:
        n += 1
        if n <= 25:
            r = min(v, key=lambda x: len(x['hist']))
            print('REPORT langmc AMBIGUOUS', p.name, p.args, r['hist'], r['top'])
            print(body(p), flush=True)
print('ambiguous accepted', n, flush=True)

reports, st, cases = mc.explore([p for p, a in allok], None, post=1, budget=4000, timeout=20000)
print('machinemc', round(time.time() - t, 1), {k: v for k, v in st.items() if k not in ('errors', 'shard_walls')}, st['errors'][:2], flush=True)
kinds = collections.Counter()
shown = collections.Counter()
for (p, a), reps in zip(allok, reports):
    first = {}
    for r in reps:
        kinds[r['kind']] += 1
        first.setdefault(r['kind'], r)
    for k, r in first.items():
        shown[k] += 1
        if shown[k] <= 12 and k not in ('FAILNOTABS',):
            print('REPORT machinemc', k, p.name, p.args, r['hist'])
            print(body(p), flush=True)
print('machinemc kinds', dict(kinds), 'programs per kind', dict(shown), flush=True)
