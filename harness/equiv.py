"""Run Equiv.tla on pairs of exported machines."""
import runner, mc
from tlagen import tla, TSet

EQ_CFG = 'SPECIFICATION Spec\nVIEW View\nCONSTRAINT Bound\nCHECK_DEADLOCK FALSE\n'


def joint_symbols(ma, mb, per_cell=1, with_end=False):
    ca = mc.symbol_cells(ma)
    cb = mc.symbol_cells(mb)
    ia, ib = {}, {}
    for i, cell in enumerate(ca):
        for b in cell:
            ia[b] = i
    for i, cell in enumerate(cb):
        for b in cell:
            ib[b] = i
    cells = {}
    for b in range(256):
        cells.setdefault((ia[b], ib[b]), []).append(b)
    reps = set()
    for cell in cells.values():
        reps.add(cell[0])
        if per_cell >= 2 and len(cell) > 1:
            reps.add(cell[-1])
    out = sorted(reps)
    if with_end:
        out.append(256)
    return out


def explore(pairs, slack=True, maxlen=None, budget=300000, parallel=4, workers=4, timeout=1500, per_cell=1):
    """pairs: list of (ProgA, ProgB).  Each TLC case carries both machines; returns (reports per pair, stats, cases)."""
    cases = []
    for a, b in pairs:
        syms = joint_symbols(a.m, b.m, per_cell, with_end=bool(a.flags['EOF_SUPPORT'] and b.flags['EOF_SUPPORT']))
        cases.append({'a': a, 'b': b, 'syms': syms, 'maxlen': min(maxlen if maxlen is not None else 99, mc.depth_for(len(syms), budget))})
    # run_sharded handles one machine per case; here two: render both machine texts inline via a per-shard table trick:
    # we give the pair's two machines as a 2-element tuple text and index ma = 2*MI-1, mb = 2*MI
    def machine_text(c):
        return c['a'].mtla() + ',\n' + c['b'].mtla()

    def render(c):
        return ('[ma |-> 2 * @MI@ - 1, mb |-> 2 * @MI@, syms |-> %s, maxlen |-> %d, slack |-> %s]'
                % (tla(TSet(c['syms'])), c['maxlen'], 'TRUE' if slack else 'FALSE'))
    reports, stats = runner.run_sharded('Equiv', cases, render, machine_text, parallel=parallel, workers=workers, timeout=timeout, cfg=EQ_CFG)
    return reports, stats, cases
