#!/usr/bin/env python3
"""Print the prompt handed to an independent mutation sub-agent for one property.
Only the property text and the scratch worktree path are given (nothing from /verif)."""
import json, sys
pid = sys.argv[1]
wt = sys.argv[2]
n = sys.argv[3] if len(sys.argv) > 3 else "1"
for l in open('/verif/properties.jsonl'):
    p = json.loads(l)
    if p['id'] == pid:
        break
print(f"""You are helping test a verification effort by playing the role of a developer who introduces a subtle regression.

The project is nmfu (mincrmatt12/nmfu): a single-file Python compiler (nmfu.py) from a procedural parser DSL to DFA state machines and C code. You have your own scratch git worktree of it at {wt} (work ONLY there; never touch /repo or /verif, and do not read /verif). Python with the project's dependencies is /venv/bin/python; gcc and clang are installed. No network. Docs are in {wt}/docs/user-ref/*.md.

Here is a semantic property that users of nmfu rely on:

  Title: {p['title']}
  Statement: {p['statement']}
  Scope: {p['quantifier']['text']}

Your task: produce {n} realistic change(s) to nmfu.py (the kind of plausible slip or 'simplification' a maintainer could make: an off-by-one, a dropped special case, a wrong condition, a reordering, two cooperating sites that each look fine alone) that BREAKS this property while
  (a) nmfu.py still imports and the whole existing test-suite still passes unchanged:  cd {wt} && /venv/bin/python -m pytest -q -p no:cacheprovider --timeout=900 -x   (about 1 minute; all 138 tests must pass), and
  (b) the breakage needs something specific to manifest - a particular input or byte value, a particular chunking of the input, a multi-step sequence of operations, a particular option combination, an unusual program shape - NOT something any ordinary use would expose at once (e.g. do not break every literal match).

For each change deliver, in a new directory {wt}/_seed/<k>/ (k = 1, 2, ...):
  - patch.diff : output of `git -C {wt} diff -- nmfu.py` for this change alone (relative to the pristine HEAD; changes are independent alternatives, not cumulative),
  - a demonstration `demo.py` (run as `cd <tree> && /venv/bin/python _seed/<k>/demo.py` or given the tree path as argv[1]; it may write an .nmfu program to a temp dir, run the compiler from that tree via `import nmfu` / `python nmfu.py`, compile the emitted C with gcc together with a small C main, and run it) that exits 0 on the pristine tree and exits non-zero (printing what went wrong) with the patch applied. The demo must import nmfu from the tree it is given (sys.path.insert(0, tree)), not from an installed copy.
  - notes.md : which part of the property is broken, what exactly is needed for it to manifest, and the commands you ran (pytest result with the patch, demo result with and without).
Verify all of it yourself: apply patch -> pytest passes -> demo fails; revert (git checkout -- nmfu.py) -> demo passes. Leave the worktree with nmfu.py reverted to pristine at the end (the patches live only in _seed/). Clean temporary build output you created outside the worktree. Prefer changes in different parts of the pipeline (front end / DFA construction / optimisation passes / C code generation / option handling) when asked for more than one. In your final message, list for each change: a one-line description, what it needs to manifest, and the paths of the files.""")
