#!/usr/bin/env python3
"""Self-test of spec/NmfuWide.tla against Python integers: random operands, every operator, TLC evaluates."""
import os, sys, random
sys.path.insert(0, os.path.dirname(os.path.dirname(os.path.abspath(__file__))))
import tlc

B = 32768


def limbs(n):
    n = abs(n)
    out = []
    while n:
        out.append(n % B)
        n //= B
    return out


def W(n):
    return '[neg |-> %s, m |-> <<%s>>]' % ('TRUE' if n < 0 else 'FALSE', ', '.join(map(str, limbs(n))))


def tdiv(a, b):
    q = abs(a) // abs(b)
    return -q if (a < 0) != (b < 0) else q


def conv(v, bits, signed):
    v &= (1 << bits) - 1
    if signed and v >= 1 << (bits - 1):
        v -= 1 << bits
    return v


def main(n=400, seed=1):
    r = random.Random(seed)
    cases = []

    def rnd():
        k = r.random()
        if k < 0.2:
            return r.choice([0, 1, -1, 2 ** 31 - 1, -2 ** 31, 2 ** 31, 2 ** 32 - 1, 2 ** 32, 2 ** 63 - 1, -2 ** 63, 2 ** 64 - 1, 32767, 32768, -32768, 2 ** 30, 2 ** 45])
        return r.randint(-2 ** r.randint(1, 66), 2 ** r.randint(1, 66))
    for _ in range(n):
        a, b = rnd(), rnd()
        bits = r.choice([32, 64])
        signed = r.random() < 0.5
        sh = r.randrange(bits)
        exp = [('add', a + b), ('sub', a - b), ('mul', a * b), ('cmp', (a > b) - (a < b))]
        if b != 0:
            exp += [('div', tdiv(a, b)), ('mod', a - tdiv(a, b) * b)]
        ca, cb = conv(a, bits, signed), conv(b, bits, signed)
        exp += [('conv', ca), ('and', conv(ca & cb, bits, signed)), ('or', conv(ca | cb, bits, signed)), ('xor', conv(ca ^ cb, bits, signed)),
                ('shl', conv(ca << sh, bits, signed)), ('shr', ca >> sh)]
        for op, e in exp:
            cases.append('[op |-> "%s", a |-> %s, b |-> %s, bits |-> %d, sg |-> %s, sh |-> %d, e |-> %s, ei |-> %d]'
                         % (op, W(a), W(b), bits, 'TRUE' if signed else 'FALSE', sh, W(e), e if op == 'cmp' else 0))
        small = r.randint(-2 ** 31, 2 ** 31 - 1)
        cases.append('[op |-> "fromint", a |-> %s, b |-> %s, bits |-> 32, sg |-> TRUE, sh |-> 0, e |-> %s, ei |-> %d]' % (W(0), W(0), W(small), small))
    mod = ('---- MODULE WideTest ----\nEXTENDS NmfuWide, TLC, Json\nCases == <<\n%s\n>>\n'
           'Got(c) == CASE c.op = "add" -> WAdd(c.a, c.b) [] c.op = "sub" -> WSub(c.a, c.b) [] c.op = "mul" -> WMul(c.a, c.b)\n'
           '  [] c.op = "div" -> WDiv(c.a, c.b) [] c.op = "mod" -> WMod(c.a, c.b) [] c.op = "conv" -> WConv(c.a, c.bits, c.sg)\n'
           '  [] c.op = "and" -> WBitOp("&", WConv(c.a, c.bits, c.sg), WConv(c.b, c.bits, c.sg), c.bits, c.sg)\n'
           '  [] c.op = "or" -> WBitOp("|", WConv(c.a, c.bits, c.sg), WConv(c.b, c.bits, c.sg), c.bits, c.sg)\n'
           '  [] c.op = "xor" -> WBitOp("^", WConv(c.a, c.bits, c.sg), WConv(c.b, c.bits, c.sg), c.bits, c.sg)\n'
           '  [] c.op = "shl" -> WShl(WConv(c.a, c.bits, c.sg), c.sh, c.bits, c.sg)\n'
           '  [] c.op = "shr" -> WShr(WConv(c.a, c.bits, c.sg), c.sh, c.bits, c.sg)\n'
           '  [] c.op = "fromint" -> WFromInt(c.ei)\n'
           '  [] c.op = "cmp" -> c.e\n'
           'Ok(c) == IF c.op = "cmp" THEN WCmp(c.a, c.b) = c.ei\n'
           '         ELSE IF c.op = "fromint" THEN WFromInt(c.ei) = c.e /\\ WFitsInt(c.e) /\\ WToInt(c.e) = c.ei\n'
           '         ELSE Got(c) = c.e\n'
           'VARIABLE i\nInit == i = 1\n'
           'Next == i <= Len(Cases) /\\ i\' = i + 1 /\\ ((~Ok(Cases[i])) => PrintT("@@" \\o ToJson([kind |-> "BAD", i |-> i, op |-> Cases[i].op, got |-> Got(Cases[i]), c |-> Cases[i]])))\n'
           'Spec == Init /\\ [][Next]_i\n====\n') % ',\n'.join(cases)
    res = tlc.run_tlc('WideTest', 'SPECIFICATION Spec\nCHECK_DEADLOCK FALSE\n', {'WideTest': mod}, workers=1, timeout=900)
    bad = [x for x in res.reports if x.get('kind') == 'BAD']
    print('cases', len(cases), 'ok' if res.ok else 'TLC FAILED', 'bad', len(bad), 'states', res.distinct)
    for b in bad[:8]:
        print(str(b)[:400])
    if not res.ok:
        print((res.error or res.stdout[-1500:]))
    return 0 if res.ok and not bad else 1


if __name__ == '__main__':
    sys.exit(main(int(sys.argv[1]) if len(sys.argv) > 1 else 400, int(sys.argv[2]) if len(sys.argv) > 2 else 1))
