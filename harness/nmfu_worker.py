#!/venv/bin/python
"""
Compile worker: runs the REAL nmfu pipeline from the repository working tree and
exports its phase results *as data*.

Run with /venv/bin/python; NMFU_REPO (default /repo) is put first on sys.path so the
module under test is always the current working tree.

Protocol: one JSON object per line on stdin
   {"id": ..., "src": "<nmfu source>", "args": ["-O1", ...], "name": "p", "want": ["machine","c","header_syms"]}
one JSON object per line on stdout
   {"id": ..., "outcome": "code" | "cli_error" | "syntax_error" | "parse_error" | "compile_error" |
                          "codegen_error" | "internal_error",
    "errclass": ..., "msg": ..., "machine": {...}, "c": "...", "h": "...", "flags": {...}}

The exporter reads DfaCompileCtx.dfa purely as data: state order, ordered transitions,
on_values, flags, action objects, expression trees.  It calls none of the compiler's
semantic helpers (simulate / trace / dfs / __getitem__), so a bug there cannot hide itself.
"""
import sys, os, json, traceback, io, contextlib

REPO = os.environ.get("NMFU_REPO", "/repo")
sys.path.insert(0, REPO)
import nmfu  # noqa: E402
import lark  # noqa: E402

TERMINATING = -9
_GARBAGE = []


def _enum_index(lit):
    try:
        return lit.model_ref.enum_values.index(lit.value)
    except Exception:
        return -1


def export_expr(e):
    n = nmfu
    if isinstance(e, n.LiteralIntegerExpr):
        t = e.typ
        if t == n.OutputStorageType.ENUM:
            return {"k": "lit", "t": "enum", "v": _enum_index(e), "var": e.model_ref.name if e.model_ref else None}
        if t == n.OutputStorageType.BOOL:
            return {"k": "lit", "t": "bool", "v": 1 if e.value else 0}
        if t == n.OutputStorageType.INT:
            return {"k": "lit", "t": "int", "v": int(e.value)}
        return {"k": "lit", "t": str(t), "v": repr(e.value)}
    if isinstance(e, n.OutIntegerExpr):
        return {"k": "var", "name": e.ref.name}
    if isinstance(e, n.StringLengthIntegerExpr):
        return {"k": "len", "name": e.ref.name}
    if isinstance(e, n.StringRefIntegerExpr):
        return {"k": "idx", "name": e.ref.name, "i": export_expr(e.index)}
    if isinstance(e, n.LastCharIntegerExpr):
        return {"k": "last"}
    if isinstance(e, n.SumIntegerExpr):
        return {"k": "sum", "c": [export_expr(x) for x in e.children], "neg": [bool(x) for x in e.negate]}
    if isinstance(e, n.MulIntegerExpr):
        return {"k": "mul", "c": [export_expr(x) for x in e.children], "ops": [x.value for x in e.divide]}
    if isinstance(e, n.CompareIntegerExpr):
        return {"k": "cmp", "op": e.op.value, "l": export_expr(e.left), "r": export_expr(e.right)}
    if isinstance(e, n.BitShiftIntegerExpr):
        return {"k": "shift", "l": export_expr(e.left), "r": export_expr(e.right), "left": bool(e.towards_left)}
    if isinstance(e, n.BitwiseIntegerExpr):
        return {"k": "bit", "op": e.op.value, "c": [export_expr(x) for x in e.children]}
    if isinstance(e, n.DisjunctionIntegerExpr):
        return {"k": "or", "c": [export_expr(x) for x in e.children]}
    if isinstance(e, n.ConjunctionIntegerExpr):
        return {"k": "and", "c": [export_expr(x) for x in e.children]}
    return {"k": "unknown", "cls": type(e).__name__}


def export_cond(c):
    n = nmfu
    if isinstance(c, n.ElseCondition):
        return {"k": "else"}
    if isinstance(c, n.ConstantCondition):
        return {"k": "const", "v": bool(c.value)}
    if isinstance(c, n.IntegerCondition):
        return {"k": "expr", "e": export_expr(c.expr)}
    return {"k": "unknown", "cls": type(c).__name__}


def _bytes_of(v):
    # SetToStr.value_expr / default_value: python str (code points) or bytes
    if isinstance(v, bytes):
        return list(v)
    return [ord(ch) for ch in v]


def export_action(a, index_of):
    n = nmfu
    if isinstance(a, n.CustomFinishAction):
        return {"op": "finish", "code": a.result_code}
    if isinstance(a, n.FinishAction):
        return {"op": "finish", "code": ""}
    if isinstance(a, n.CustomYieldAction):
        return {"op": "yield", "code": a.result_code}
    if isinstance(a, n.CallHook):
        return {"op": "hook", "name": a.name}
    if isinstance(a, n.SetTo):
        return {"op": "set", "var": a.into_storage.name, "expr": export_expr(a.value_expr)}
    if isinstance(a, n.SetToStr):
        return {"op": "setstr", "var": a.into_storage.name, "bytes": _bytes_of(a.value_expr)}
    if isinstance(a, n.DeleteBuf):
        return {"op": "delete", "var": a.into_storage.name}
    if isinstance(a, n.AppendCharTo):
        return {"op": "appendc", "var": a.into_storage.name, "expr": export_expr(a.append_value),
                "ovf": index_of(a.end_target)}
    if isinstance(a, n.AppendTo):
        return {"op": "append", "var": a.into_storage.name, "ovf": index_of(a.end_target)}
    if isinstance(a, n.ConditionalAction):
        return {"op": "cond", "branches": [
            {"cond": export_cond(c), "acts": [export_action(x, index_of) for x in a.sub_actions[c]]}
            for c in a.conditions]}
    if isinstance(a, n.BreakAction):
        return {"op": "break", "sub": [export_action(x, index_of) for x in a.replacement_actions()],
                "to": index_of(a.refers_to.end_state)}
    return {"op": "unknown", "cls": type(a).__name__}


def _all_subactions(a):
    out = [a]
    for x in a.embeds():
        out.extend(_all_subactions(x))
    return out


def export_machine(dctx):
    n = nmfu
    dfa = dctx.dfa
    states = list(dfa.states)
    pos = {}
    for i, s in enumerate(states):
        pos.setdefault(id(s), i)

    def index_of(s):
        if s is None:
            return TERMINATING
        return pos.get(id(s), TERMINATING)

    acc_ids = set(id(s) for s in dfa.accepting_states)
    strict = n.ProgramData.do(n.ProgramFlag.STRICT_DONE_TOKEN_GENERATION)

    def may_early(a):
        # structural re-computation of Action.may_return_early (yield anywhere inside)
        return any(isinstance(x, n.CustomYieldAction) for x in _all_subactions(a))

    out_states = []
    for s in states:
        if s is dctx.generic_fail_state:
            kind = "fail"
        elif isinstance(s, n.DFConditionPoint):
            kind = "cond"
        else:
            kind = "normal"
        trans = []
        for t in s.transitions:
            on = []
            els = False
            end = False
            for v in t.on_values:
                if v is n.DFTransition.Else:
                    els = True
                elif v is n.DFTransition.End:
                    end = True
                elif isinstance(v, str) and len(v) == 1:
                    on.append(ord(v))
                elif isinstance(v, int):
                    on.append(v)
                else:
                    on.append(-1)
            tgt = index_of(t.target)
            tgt_acc = t.target is not None and id(t.target) in acc_ids
            tgt_all_err = t.target is not None and all(x.error_handling for x in t.target.transitions)
            immdone = bool(tgt_acc and (not strict) and tgt_all_err and tgt != TERMINATING) if t.target is not None else False
            # codegen evaluates immediate_done on the target object even if it is no longer listed
            if t.target is not None and tgt == TERMINATING:
                immdone = bool(tgt_acc and (not strict) and tgt_all_err)
            early = any(may_early(a) for a in t.actions)
            trans.append({
                "on": sorted(set(on)), "els": els, "end": end, "tgt": tgt,
                "fall": bool(t.is_fallthrough), "err": bool(t.error_handling),
                "acts": [export_action(a, index_of) for a in t.actions],
                "cond": export_cond(t.condition) if isinstance(t, n.DFConditionalTransition) else {"k": "none"},
                "immdone": immdone, "early": bool(early and not t.is_fallthrough and not immdone),
            })
        out_states.append({"kind": kind, "acc": id(s) in acc_ids, "proxy": isinstance(s, n.DFProxyState), "trans": trans})

    outs = []
    for o in dctx.state_object_spec.values():
        T = n.OutputStorageType
        d = {"name": o.name, "type": {T.BOOL: "bool", T.INT: "int", T.ENUM: "enum", T.STR: "str", T.RAW: "raw"}[o.type]}
        if o.type == T.INT:
            d["signed"] = bool(o.int_signed)
            d["width"] = o.int_width if o.int_width is not None else 4
            d["width_given"] = o.int_width is not None
            d["default"] = export_expr(o.default_value) if o.default_value is not None else None
        elif o.type == T.BOOL:
            d["default"] = export_expr(o.default_value) if o.default_value is not None else None
        elif o.type == T.ENUM:
            d["enum_values"] = list(o.enum_values)
            d["default"] = export_expr(o.default_value) if o.default_value is not None else None
        elif o.type == T.STR:
            d["size"] = o.str_size
            d["term"] = bool(o.str_null)
            d["default"] = _bytes_of(o.default_value) if o.default_value is not None else None
        elif o.type == T.RAW:
            d["raw"] = o.raw_underlying
            d["default"] = None
        outs.append(d)

    return {
        "states": out_states,
        "start": index_of(dfa.starting_state),
        "fail": index_of(dctx.generic_fail_state),
        "start_actions": [export_action(a, index_of) for a in dctx.start_actions],
        "outs": outs,
        "hooks": list(dctx.hooks),
        "finish_codes": list(dctx.finish_codes),
        "yield_codes": list(dctx.yield_codes),
    }


def flags_snapshot():
    n = nmfu
    return {
        "flags": {f.name: bool(n.ProgramData._flags[f]) for f in n.ProgramFlag},
        "options": {o.name: n.ProgramData._options[o] for o in n.ProgramOption},
    }


def render_error(e):
    """str(e) must be renderable (C18)."""
    try:
        return str(e), True
    except Exception as ee:  # noqa
        return "str() raised %s: %s" % (type(ee).__name__, ee), False


def run_job(job):
    n = nmfu
    res = {"id": job.get("id")}
    want = set(job.get("want", ["machine"]))
    name = job.get("name", "p")
    src = job["src"]
    args = list(job.get("args", []))
    stage = "cli"
    try:
        try:
            n.ProgramData.load_commandline_flags(args + [name + ".nmfu"])
        except RuntimeError as e:
            res.update(outcome="cli_error", errclass=type(e).__name__, msg=str(e))
            return res
        res.update(flags_snapshot())
        n.ProgramData.load_source(src)
        stage = "syntax"
        try:
            pt = n.parser.parse(src, start="start")
        except lark.LarkError as e:
            res.update(outcome="syntax_error", errclass=type(e).__name__, msg=str(e)[:300])
            return res
        stage = "parse"
        pctx = n.ParseCtx(pt)
        try:
            pctx.parse()
        except n.NMFUError as e:
            m, ok = render_error(e)
            res.update(outcome="parse_error" if ok else "internal_error", errclass=type(e).__name__, msg=m[:600])
            return res
        stage = "compile"
        dctx = n.DfaCompileCtx(pctx)
        try:
            dctx.compile()
        except n.NMFUError as e:
            m, ok = render_error(e)
            res.update(outcome="compile_error" if ok else "internal_error", errclass=type(e).__name__, msg=m[:600])
            return res
        stage = "export"
        if "machine" in want:
            res["machine"] = export_machine(dctx)
        stage = "codegen"
        if "c" in want or "codegen" in want:
            cctx = n.CodegenCtx(dctx, name)
            try:
                h = cctx.generate_header()
                c = cctx.generate_source()
            except n.NMFUError as e:
                m, ok = render_error(e)
                res.update(outcome="codegen_error" if ok else "internal_error", errclass=type(e).__name__, msg=m[:600])
                return res
            if "c" in want:
                res["h"] = h
                res["c"] = c
            res["nstates"] = len(dctx.dfa.states)
        res["outcome"] = "code"
        return res
    except RecursionError as e:
        res.update(outcome="internal_error", errclass="RecursionError", msg=stage)
        return res
    except BaseException as e:  # includes SystemExit from nmfu
        if isinstance(e, KeyboardInterrupt):
            raise
        tb = traceback.format_exc(limit=6)
        res.update(outcome="internal_error", errclass=type(e).__name__, msg=(stage + ": " + str(e))[:300], tb=tb[-1500:])
        return res


def main():
    out = sys.stdout
    sys.stdout = io.StringIO()  # nmfu dprint noise goes nowhere
    for line in sys.stdin:
        line = line.strip()
        if not line:
            continue
        job = json.loads(line)
        if job.get("cmd") == "flags_batch":
            # many command lines per request; result per argv: bitmask over job["names"] or -1 (RuntimeError) or -2 (other exception)
            outl = []
            detail = {}
            for k, argv in enumerate(job["argvs"]):
                try:
                    nmfu.ProgramData.load_commandline_flags(list(argv))
                    mask = 0
                    for i, name in enumerate(job["names"]):
                        if nmfu.ProgramData._flags[nmfu.ProgramFlag[name]]:
                            mask |= 1 << i
                    outl.append(mask)
                except RuntimeError as e:
                    outl.append(-1)
                    if len(detail) < 20:
                        detail[k] = str(e)[:100]
                except SystemExit:
                    outl.append(-3)
                except BaseException as e:
                    outl.append(-2)
                    detail[k] = type(e).__name__ + ": " + str(e)[:100]
            res = {"id": job.get("id"), "codes": outl, "detail": detail}
        elif job.get("cmd") == "argv_batch":
            # whole command lines (C19, NmfuArgv.tla); result per argv: "E" (diagnosed RuntimeError), "X" (help / version: exits),
            # "C:<exception>" (anything else) or [input, output name, dry run, dump kinds, dump prefix, collapsed range length, flag mask]
            outl = []
            real_stdout = sys.stdout
            real_stdin = sys.stdin
            for k, argv in enumerate(job["argvs"]):
                sys.stdout = io.StringIO()
                sys.stdin = io.StringIO()         # help / version call exit(), which closes sys.stdin: not the job pipe
                try:
                    r = nmfu.ProgramData.load_commandline_flags(list(argv))
                    mask = 0
                    for i, name in enumerate(job["names"]):
                        if nmfu.ProgramData._flags[nmfu.ProgramFlag[name]]:
                            mask |= 1 << i
                    outl.append([r[0], r[1], bool(nmfu.ProgramData.dry_run), [d.value for d in nmfu.ProgramData._dump], nmfu.ProgramData.dump_prefix,
                                 nmfu.ProgramData.option(nmfu.ProgramOption.COLLAPSED_RANGE_LENGTH), mask])
                except RuntimeError:
                    outl.append("E")
                except SystemExit:
                    outl.append("X")
                except BaseException as e:
                    outl.append("C:" + type(e).__name__ + ": " + str(e)[:100])
                finally:
                    sys.stdout = real_stdout
                    sys.stdin = real_stdin
            res = {"id": job.get("id"), "results": outl}
        elif job.get("cmd") == "flags":
            # pure flag resolution (C19): args without input file are passed verbatim
            try:
                r = nmfu.ProgramData.load_commandline_flags(list(job["argv"]))
                res = {"id": job.get("id"), "ok": True, "ret": list(r)}
                res.update(flags_snapshot())
            except RuntimeError as e:
                res = {"id": job.get("id"), "ok": False, "err": str(e)}
            except BaseException as e:
                res = {"id": job.get("id"), "ok": False, "crash": type(e).__name__, "err": str(e)[:200]}
        else:
            sys.stdout = io.StringIO()
            # history perturbation for the purity check (C20): other compilations first, garbage objects kept alive
            for pre in job.get("pre", []):
                try:
                    run_job({"id": -1, "src": pre["src"], "args": pre.get("args", []), "want": ["machine", "codegen"]})
                except BaseException:
                    pass
            if job.get("garbage"):
                _GARBAGE.append([object() for _ in range(int(job["garbage"]))] + [dict(a=i) for i in range(int(job["garbage"]) // 7)])
            res = run_job(job)
            for k in range(int(job.get("repeat", 0))):
                res2 = run_job(job)
                res["repeat_%d" % (k + 1)] = {x: res2.get(x) for x in ("outcome", "errclass", "machine")}
        out.write(json.dumps(res) + "\n")
        out.flush()


if __name__ == "__main__":
    main()
