#!/bin/sh
# Offline setup: nothing is compiled ahead of time (every check rebuilds from /repo's working tree);
# this only parses all specification modules with SANY so that a broken spec is caught early.
cd "$(dirname "$0")/../spec" || exit 1
rc=0
for f in NmfuArgv.tla ApiTrace.tla StepTrace.tla MachineMC.tla Cover.tla Conform.tla Equiv.tla NmfuFlags.tla LangMC.tla CompileTrace.tla ApiSpec.tla; do
  out=$(java -cp /opt/veriftools/tla/tla2tools.jar:/opt/veriftools/tla/CommunityModules-deps.jar tla2sany.SANY "$f" 2>&1)
  if echo "$out" | grep -q -i "error\|exception"; then echo "SANY failed for $f"; echo "$out" | tail -20; rc=1; fi
done
rm -rf /tmp/SANY* 2>/dev/null
[ $rc = 0 ] && echo "setup ok"
exit $rc
