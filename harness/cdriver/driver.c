/*
 * Generic command-driven driver for an nmfu-generated parser.
 * Linked with the generated <name>.c and a generated glue.h (see harness/cbuild.py).
 *
 * stdin commands (one per line):
 *   N            new parser instance (state struct zero-filled, per-state hook pointers installed)
 *   S            <name>_start
 *   F <hex>      <name>_feed on the bytes (copied into an exact-size heap block); "F -" = zero-length feed
 *   E            <name>_end     (if generated)
 *   X            <name>_free    (if generated), then report live heap blocks
 *   Q <n>        force state->state = n
 *   V <name> <int>     force a scalar output
 *   B <name> <len> <hex>   force a string/raw output: buffer bytes (hex, up to its size) and counter
 *   A            sweep: from the current context feed each single byte 0..255 (and end-of-input), restoring the
 *                context in between; prints the distinct outcomes and a 257-entry index vector
 *   T <text>     echo a trace separator line  {"ev":"trace","id":"<text>"}
 * stdout: one JSON object per API call:
 *   {"ev":"feed","rc":0,"adv":3,"q":5,"out":{...},"hooks":[{"n":"h","iv":97,"out":{...}},...]}
 */
#include <stdio.h>
#include <stdlib.h>
#include <string.h>
#include <stdint.h>
#include <signal.h>
#include <setjmp.h>

#include "vmem.h"
#include GLUE_HEADER

/* ---------------- tracked allocator used by the generated code ---------------- */
#define MAXBLK 256
static void *blk[MAXBLK];
static int nblk = 0;
static int mem_errors = 0;

void *v_malloc(size_t n) {
    void *p = (malloc)(n);
    if (!p) abort();
    memset(p, 0, n);
    if (nblk < MAXBLK) blk[nblk++] = p;
    return p;
}
void v_free(void *p) {
    if (!p) return;
    for (int i = 0; i < nblk; i++) {
        if (blk[i] == p) { blk[i] = blk[--nblk]; (free)(p); return; }
    }
    /* not a live block: double free or wild free */
    mem_errors++;
    printf("{\"ev\":\"memerr\",\"what\":\"free of non-live block\"}\n");
    fflush(stdout);
}

/* ---------------- logging ---------------- */
static char hookbuf[1 << 20];
static size_t hooklen = 0;
static int nhooks = 0;

static void hex(FILE *f, const uint8_t *p, size_t n) {
    for (size_t i = 0; i < n; i++) fprintf(f, "%02x", p[i]);
}

static PSTATE *g_state;

static void log_hook(const char *name, PSTATE *st, uint8_t inval) {
    FILE *f = fmemopen(hookbuf + hooklen, sizeof(hookbuf) - hooklen, "w");
    if (!f) return;
    fprintf(f, "%s{\"n\":\"%s\",\"iv\":%u,\"out\":{", nhooks ? "," : "", name, (unsigned)inval);
    glue_dump_outs(st, f);
    fprintf(f, "}}");
    long w = ftell(f);
    fclose(f);
    if (w > 0) hooklen += (size_t)w;
    nhooks++;
}

GLUE_HOOK_DEFS

/* ---- arithmetic traps of the *user's* expressions (integer division by zero): outside the properties, must not kill the
 *      recorder; the call is reported with rc = -100 and the specification must agree that the step is undefined ---- */
static sigjmp_buf trap_jb;
static volatile int trap_armed = 0;
static void on_fpe(int sig) { (void)sig; if (trap_armed) siglongjmp(trap_jb, 1); _exit(70); }
#define GUARDED(call, rcvar) do { trap_armed = 1; if (sigsetjmp(trap_jb, 1) == 0) { rcvar = (int)(call); } else { rcvar = -100; } trap_armed = 0; } while (0)

/* ---- exhaustive single-step sweep: every byte (and end-of-input) from one saved context ---- */
static char obuf[257][1 << 16];
static int nouts;
static int oidx[257];

static int outcome_index(int rc, long adv) {
    static char cur[1 << 16];
    FILE *f = fmemopen(cur, sizeof cur, "w");
    fprintf(f, "{\"rc\":%d,\"adv\":%ld,\"q\":%ld,\"out\":{", rc, adv, (long)g_state->state);
    glue_dump_outs(g_state, f);
    fprintf(f, "},\"hooks\":[%.*s]}", (int)hooklen, hookbuf);
    fclose(f);
    hooklen = 0; nhooks = 0;
    for (int i = 0; i < nouts; i++) if (!strcmp(obuf[i], cur)) return i;
    strcpy(obuf[nouts], cur);
    return nouts++;
}

static unsigned char sweep_mask[256];   /* which byte values the sweep feeds (all by default) */

static void sweep(void) {
    nouts = 0;
    glue_save(g_state);
    printf("{\"ev\":\"steps\",\"q\":%ld,\"out\":{", (long)g_state->state);
    glue_dump_outs(g_state, stdout);
    printf("},");
    for (int b = 0; b < 256; b++) {
        if (!sweep_mask[b]) { oidx[b] = -1; continue; }
        glue_restore(g_state);
        uint8_t *buf = (uint8_t *)(malloc)(1);
        buf[0] = (uint8_t)b;
#if GLUE_INDIRECT
        const uint8_t *cur = buf;
        int rc; GUARDED(PFX(feed)(&cur, buf + 1, g_state), rc);
        oidx[b] = outcome_index(rc, (long)(cur - buf));
#else
        int rc; GUARDED(PFX(feed)(buf, buf + 1, g_state), rc);
        oidx[b] = outcome_index(rc, -1);
#endif
        (free)(buf);
    }
#if GLUE_HAS_END
    glue_restore(g_state);
    { int rc; GUARDED(PFX(end)(g_state), rc); oidx[256] = outcome_index(rc, 0); }
#else
    oidx[256] = -1;
#endif
    glue_restore(g_state);
    printf("\"outs\":[");
    for (int i = 0; i < nouts; i++) printf("%s%s", i ? "," : "", obuf[i]);
    printf("],\"idx\":[");
    for (int i = 0; i < 257; i++) printf("%s%d", i ? "," : "", oidx[i]);
    printf("]}\n");
    fflush(stdout);
}

static void emit(const char *ev, int rc, long adv) {
    printf("{\"ev\":\"%s\",\"rc\":%d,\"adv\":%ld,\"q\":%ld,\"out\":{", ev, rc, adv, (long)g_state->state);
    glue_dump_outs(g_state, stdout);
    printf("},\"hooks\":[%.*s]}\n", (int)hooklen, hookbuf);
    fflush(stdout);
    hooklen = 0; nhooks = 0;
}

static int hexval(int c) {
    if (c >= '0' && c <= '9') return c - '0';
    if (c >= 'a' && c <= 'f') return c - 'a' + 10;
    if (c >= 'A' && c <= 'F') return c - 'A' + 10;
    return -1;
}

static char line[1 << 20];

int main(void) {
    g_state = NULL;
    signal(SIGFPE, on_fpe);
    while (fgets(line, sizeof line, stdin)) {
        size_t L = strlen(line);
        while (L && (line[L-1] == '\n' || line[L-1] == '\r')) line[--L] = 0;
        if (!L) continue;
        char cmd = line[0];
        char *arg = L > 2 ? line + 2 : line + L;
        if (cmd == 'T') {
            printf("{\"ev\":\"trace\",\"id\":\"%s\"}\n", arg); fflush(stdout);
        } else if (cmd == 'N') {
            if (g_state) (free)(g_state);
            g_state = (PSTATE *)(calloc)(1, sizeof(PSTATE));
            glue_install_hooks(g_state);
            hooklen = 0; nhooks = 0;
        } else if (cmd == 'S') {
            int rc; GUARDED(PFX(start)(g_state), rc);
            emit("start", rc, 0);
        } else if (cmd == 'F') {
            size_t n = 0;
            uint8_t *buf;
            if (arg[0] == '-') { n = 0; }
            else n = strlen(arg) / 2;
            buf = (uint8_t *)(malloc)(n ? n : 1);
            for (size_t i = 0; i < n; i++) buf[i] = (uint8_t)(hexval(arg[2*i]) * 16 + hexval(arg[2*i+1]));
            /* exact-size block: with n == 0 we still pass a 1-byte block's START as start==end */
            const uint8_t *start = buf;
            const uint8_t *end = buf + n;
#if GLUE_INDIRECT
            const uint8_t *cur = start;
            int rc; GUARDED(PFX(feed)(&cur, end, g_state), rc);
            emit("feed", rc, (long)(cur - start));
#else
            int rc; GUARDED(PFX(feed)(start, end, g_state), rc);
            emit("feed", rc, -1);
#endif
            (free)(buf);
        } else if (cmd == 'E') {
#if GLUE_HAS_END
            int rc; GUARDED(PFX(end)(g_state), rc);
            emit("end", rc, 0);
#else
            printf("{\"ev\":\"noend\"}\n"); fflush(stdout);
#endif
        } else if (cmd == 'X') {
#if GLUE_HAS_FREE
            PFX(free)(g_state);
#endif
            printf("{\"ev\":\"free\",\"live\":%d,\"memerr\":%d,\"out\":{", nblk, mem_errors);
            glue_dump_outs(g_state, stdout);
            printf("}}\n");
            fflush(stdout);
        } else if (cmd == 'A') {
            memset(sweep_mask, 1, sizeof sweep_mask);
            sweep();
        } else if (cmd == 'a') {
            /* sweep only the listed byte values (hex pairs) */
            memset(sweep_mask, 0, sizeof sweep_mask);
            for (size_t i = 0; i + 1 < strlen(arg); i += 2) sweep_mask[hexval(arg[i]) * 16 + hexval(arg[i+1])] = 1;
            sweep();
        } else if (cmd == 'Q') {
            g_state->state = (__typeof__(g_state->state))atol(arg);
        } else if (cmd == 'V') {
            char name[128]; long long v;
            if (sscanf(arg, "%127s %lld", name, &v) == 2) glue_set_scalar(g_state, name, v);
        } else if (cmd == 'B') {
            char name[128]; long len; int off = 0;
            if (sscanf(arg, "%127s %ld %n", name, &len, &off) >= 2) {
                char *h = arg + off;
                size_t n = strlen(h) / 2;
                uint8_t *tmp = (uint8_t *)(malloc)(n ? n : 1);
                for (size_t i = 0; i < n; i++) tmp[i] = (uint8_t)(hexval(h[2*i]) * 16 + hexval(h[2*i+1]));
                glue_set_buf(g_state, name, tmp, n, len);
                (free)(tmp);
            }
        }
    }
    if (g_state) (free)(g_state);
    return 0;
}
