/* force-included in front of the generated parser source: routes its malloc/free through the
 * driver's tracked allocator (zero-filled blocks, double-free and leak accounting). */
#ifndef VMEM_H
#define VMEM_H
#include <stdlib.h>
#include <string.h>
void *v_malloc(size_t n);
void v_free(void *p);
#ifndef VMEM_NO_REDIRECT
#define malloc(n) v_malloc(n)
#define free(p) v_free(p)
#endif
#endif
