"""Check framework: result collection, known findings, evidence files, VIOLATION lines."""
import os, sys, json, time, hashlib

ROOT = os.path.dirname(os.path.dirname(os.path.abspath(__file__)))
# VERIF_OUT redirects evidence/ and replay/ (used when a check is run against a scratch tree with a seeded change,
# so that the committed evidence always describes /repo itself)
_OUT = os.environ.get('VERIF_OUT') or ROOT
EVID = os.path.join(_OUT, 'evidence')
REPLAY = os.path.join(_OUT, 'replay')
KNOWN = os.path.join(ROOT, 'known_findings.txt')


def seed_from_env(default=1):
    try:
        return int(os.environ.get('VERIF_SEED', default))
    except ValueError:
        return default


def load_known():
    """lines  `known: property=<id> id=<slug> {json}`  (fixed: lines are documentation and suppress nothing)"""
    out = []
    if os.path.exists(KNOWN):
        for l in open(KNOWN):
            l = l.strip()
            if not l.startswith('known:'):
                continue
            head, _, js = l.partition('{')
            parts = dict(x.split('=', 1) for x in head.split()[1:] if '=' in x)
            d = json.loads('{' + js) if js else {}
            d.update(property=parts.get('property'), id=parts.get('id'), status='known')
            out.append(d)
    return out


class Check:
    def __init__(self, pid, tier, seed, level):
        self.pid = pid
        self.tier = tier
        self.seed = seed
        self.level = level
        self.t0 = time.time()
        self.violations = []      # dicts, each with a 'witness'
        self.known_hits = []      # (finding, witness)
        self.coverage = {}
        self.assumptions = []
        self.machinery_errors = []
        self.known = [k for k in load_known() if k.get('property') == pid]

    # -- findings
    def known_status(self, fid):
        for k in self.known:
            if k.get('id') == fid:
                return k.get('status', 'known')
        return None

    def violation(self, what, witness, finding_id=None):
        """report a confirmed violation. If finding_id names a *known* finding it is printed as KNOWN-FINDING."""
        if finding_id is not None and self.known_status(finding_id) == 'known':
            self.known_hits.append((finding_id, what))
            return
        self.violations.append({'what': what, 'witness': witness})

    def machinery_error(self, text):
        self.machinery_errors.append(text)

    # -- output
    def finish(self):
        os.makedirs(EVID, exist_ok=True)
        wall = time.time() - self.t0
        cov = dict(self.coverage)
        ev = {
            'property_id': self.pid, 'tier': self.tier, 'seed': self.seed, 'level': self.level,
            'coverage': cov, 'assumptions': self.assumptions, 'wall_s': round(wall, 2),
            'violations': len(self.violations),
        }
        if self.known_hits:
            ev['known_findings_reproduced'] = sorted(set(f for f, _ in self.known_hits))
        with open(os.path.join(EVID, self.pid + '.json'), 'w') as f:
            json.dump(ev, f, indent=1, default=str)
        seen = set()
        for fid, what in self.known_hits:
            if fid in seen:
                continue
            seen.add(fid)
            print('KNOWN-FINDING: property=%s %s (%s)' % (self.pid, fid, what))
        if self.machinery_errors:
            # the root cause (a TLC error) is usually filed last: show distinct kinds first
            seen, shown = set(), 0
            for e in sorted(self.machinery_errors, key=lambda x: not str(x).startswith('TLC')):
                key = str(e)[:40]
                if key in seen and shown >= 3:
                    continue
                seen.add(key)
                shown += 1
                print('MACHINERY-ERROR: %s' % str(e)[:2000])
                if shown >= 12:
                    break
            sys.stdout.flush()
            return 2
        if self.violations:
            os.makedirs(REPLAY, exist_ok=True)
            for i, v in enumerate(self.violations[:20]):
                h = hashlib.sha1(json.dumps(v, sort_keys=True, default=str).encode()).hexdigest()[:10]
                path = os.path.join(REPLAY, '%s_%s.json' % (self.pid, h))
                with open(path, 'w') as f:
                    json.dump({'property': self.pid, **v}, f, indent=1, default=str)
                print('VIOLATION property=%s replay=%s' % (self.pid, path))
                print('  ' + str(v['what'])[:600])
            sys.stdout.flush()
            return 1
        print('OK property=%s tier=%s wall=%.1fs %s' % (self.pid, self.tier, wall,
              json.dumps({k: v for k, v in cov.items() if isinstance(v, (int, float, bool))})))
        return 0
