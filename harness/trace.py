"""Recorded driver logs -> TLA+ trace literals for ApiTrace.tla."""
from tlagen import tla, TMap, TSet, Raw, conv_machine, MAXI, scalar_cell


def rc_names(m):
    return ["OK", "FAIL", "DONE"] + ["FINISH_" + c for c in m['finish_codes']] + ["YIELD_" + c for c in m['yield_codes']]


class WideValue(Exception):
    pass


def conv_store(out, m):
    d = TMap()
    for o in m['outs']:
        n = o['name']
        c = out[n]
        if o['type'] in ('int', 'bool', 'enum'):
            v = c['v']
            if not (-(1 << 63) <= v < (1 << 64)):
                raise WideValue(n)
            d[n] = scalar_cell(v)
        else:
            size = o['size'] if o['type'] == 'str' else {"int8_t": 1, "uint8_t": 1, "int16_t": 2, "uint16_t": 2, "int32_t": 4,
                                                         "uint32_t": 4, "int64_t": 8, "uint64_t": 8, "float": 4, "double": 8}.get(o['raw'], 0)
            buf = list(bytes.fromhex(c['buf'])) if c['buf'] else [0] * size
            d[n] = {'buf': buf, 'len': c['len'], 'al': c['al']}
    return d


def conv_hooks(hooks, m):
    return [{'n': h['n'], 'iv': h['iv'], 'd': conv_store(h['out'], m)} for h in hooks]


def conv_trace(script, events, m):
    """script: the command lines sent (N,S,F..,E,X,Q,V,B); events: driver output for them (excluding 'trace' separators).
    Returns (list of TLA event dicts, truncated_reason|None)."""
    names = rc_names(m)
    out = []
    ei = 0
    evs = [e for e in events if e.get('ev') not in ('trace',)]
    pending_force = False
    try:
        for cmd in script:
            c = cmd[0]
            if c in ('N', 'T'):
                continue
            if c in ('Q', 'V', 'B'):
                pending_force = True
                continue
            if ei >= len(evs):
                return out, 'driver output ended early'
            e = evs[ei]
            ei += 1
            if e.get('ev') == 'memerr':
                return out, 'memerr'
            rc = names[e['rc']] if 'rc' in e and 0 <= e['rc'] < len(names) else ('TRAP' if e.get('rc') == -100 else 'rc%s' % e.get('rc'))
            if pending_force:
                raise ValueError('force commands must be followed by an explicit force event (use force_event())')
            if c == 'S':
                out.append({'ev': 'start', 'rc': rc, 'adv': -1, 'q': e['q'], 'd': conv_store(e['out'], m), 'hooks': conv_hooks(e['hooks'], m)})
            elif c == 'F':
                arg = cmd[2:].strip()
                chunk = [] if arg == '-' else list(bytes.fromhex(arg))
                out.append({'ev': 'feed', 'chunk': chunk, 'rc': rc, 'adv': e['adv'], 'q': e['q'], 'd': conv_store(e['out'], m), 'hooks': conv_hooks(e['hooks'], m)})
            elif c == 'E':
                if e.get('ev') == 'noend':
                    continue
                out.append({'ev': 'end', 'rc': rc, 'adv': -1, 'q': e['q'], 'd': conv_store(e['out'], m), 'hooks': conv_hooks(e['hooks'], m)})
            elif c == 'X':
                out.append({'ev': 'free', 'live': e['live'], 'memerr': e['memerr'], 'd': conv_store(e['out'], m)})
    except WideValue as w:
        return out, 'wide value in output %s' % w
    return out, None


def cases_module(modname, base, cases):
    """cases: list of (machine_tla_text, [event dicts]); identical machine texts are emitted once"""
    midx = {}
    mtexts = []
    parts = []
    for mt, evs in cases:
        if mt not in midx:
            midx[mt] = len(mtexts) + 1
            mtexts.append(mt)
        parts.append('[mi |-> %d,\n T |-> %s]' % (midx[mt], tla(evs)))
    return ('---- MODULE CasesData ----\nEXTENDS Integers, Sequences, TLC\nMachines == <<\n%s\n>>\nCases == <<\n%s\n>>\n====\n'
            % (',\n'.join(mtexts), ',\n'.join(parts)))
