"""Run Conform.tla: joint exploration of exported machines and the Lang reading of their sources."""
import runner, langgen, mc
from tlagen import tla, TSet

CONF_CFG = 'SPECIFICATION Spec\nVIEW View\nCONSTRAINT Bound\nCHECK_DEADLOCK FALSE\n'


def explore(pairs, maxlen=None, budget=300000, per_cell=1, parallel=4, workers=4, timeout=1500):
    """pairs: list of (Prog, ast).  returns (reports per pair, stats, cases)"""
    cases = []
    for p, ast in pairs:
        body, classes = langgen.lang_program(ast)
        syms = langgen.conform_symbols(p.m, classes, per_cell, with_end=bool(p.flags['EOF_SUPPORT']))
        cases.append({'p': p, 'body': body, 'syms': syms, 'mtla': p.mtla(),
                      'maxlen': min(maxlen if maxlen is not None else 99, mc.depth_for(len(syms), budget))})

    def render(c):
        return '[mi |-> @MI@, body |-> %s, syms |-> %s, maxlen |-> %d]' % (c['body'], tla(TSet(c['syms'])), c['maxlen'])
    reports, stats = runner.run_sharded('Conform', cases, render, lambda c: c['mtla'], parallel=parallel, workers=workers,
                                        timeout=timeout, cfg=CONF_CFG)
    return reports, stats, cases
