"""t-way covering arrays over boolean/multi-valued option parameters (greedy), with a validity predicate."""
import itertools, random


def covering_array(params, t=2, valid=None, rng=None, max_rows=400):
    """params: dict name -> list of values.  Returns list of dict rows covering all t-way value combinations
    that are jointly realisable in some valid row."""
    rng = rng or random.Random(0)
    names = sorted(params)
    valid = valid or (lambda row: True)
    need = set()
    for combo in itertools.combinations(names, t):
        for vals in itertools.product(*(params[n] for n in combo)):
            need.add(tuple(zip(combo, vals)))
    rows = []

    def covers(row):
        out = set()
        for combo in itertools.combinations(names, t):
            out.add(tuple((n, row[n]) for n in combo))
        return out

    impossible = set()
    tries = 0
    while need - impossible and len(rows) < max_rows and tries < 20000:
        # seed a row with one uncovered combination, fill the rest greedily from random candidates
        target = rng.choice(sorted(need - impossible, key=str))
        best, bestc = None, -1
        for _ in range(40):
            row = {n: rng.choice(params[n]) for n in names}
            for n, v in target:
                row[n] = v
            tries += 1
            if not valid(row):
                continue
            c = len(covers(row) & need)
            if c > bestc:
                best, bestc = row, c
        if best is None:
            impossible.add(target)
            continue
        rows.append(best)
        need -= covers(best)
    return rows
