"""Regex AST enumeration / random generation for C07 (text and binary dialects)."""
import random, itertools

ATOMS = [
    {'k': 'ch', 'c': 97}, {'k': 'ch', 'c': 98},
    {'k': 'set', 'inv': False, 'items': [['ch', 97], ['ch', 98]]},
    {'k': 'set', 'inv': True, 'items': [['ch', 97]]},
    {'k': 'any'}, {'k': 'cc', 'n': 'd'},
]


def enumerate_asts(size):
    """all regex ASTs with exactly `size` nodes over ATOMS and the dialect's operators"""
    if size == 1:
        return list(ATOMS)
    out = []
    for sub in enumerate_asts(size - 1):
        out.append({'k': 'star', 'c': sub})
        out.append({'k': 'plus', 'c': sub})
        out.append({'k': 'opt', 'c': sub})
        out.append({'k': 'rep', 'c': sub, 'n': 2})
        out.append({'k': 'range', 'c': sub, 'n': 1, 'm': 2})
        out.append({'k': 'atleast', 'c': sub, 'n': 1})
    for ls in range(1, size - 1):
        rs = size - 1 - ls
        for l in enumerate_asts(ls):
            for r in enumerate_asts(rs):
                out.append({'k': 'seq', 'c': [l, r]})
                out.append({'k': 'alt', 'c': [l, r]})
    return out


def random_ast(rng, depth=0, binary=False, alphabet=None):
    alphabet = alphabet or ([0x00, 0x10, 0x7f, 0x80, 0xfe, 0xff, 0x41] if binary else list(b'abcxyz019_ -'))
    k = rng.random()
    if depth >= 3 or k < 0.3:
        q = rng.random()
        if q < 0.45:
            return {'k': 'ch', 'c': rng.choice(alphabet)}
        if q < 0.75:
            items = []
            for _ in range(rng.randint(1, 3)):
                if rng.random() < 0.35:
                    a = rng.choice(alphabet)
                    items.append(['range', a, min(255, a + rng.randint(0, 12))])
                elif not binary and rng.random() < 0.25:
                    items.append(['cc', rng.choice('wdsntrWDS')])
                else:
                    items.append(['ch', rng.choice(alphabet)])
            return {'k': 'set', 'inv': rng.random() < 0.4, 'items': items}
        if q < 0.87 and not binary:
            return {'k': 'cc', 'n': rng.choice(['w', 'W', 'd', 'D', 's', 'S', 'n', 't', 'r', ' '])}
        return {'k': 'any'}
    if k < 0.55:
        return {'k': 'seq', 'c': [random_ast(rng, depth + 1, binary, alphabet) for _ in range(rng.randint(2, 3))]}
    if k < 0.7:
        return {'k': 'alt', 'c': [random_ast(rng, depth + 1, binary, alphabet) for _ in range(rng.randint(2, 3))]}
    if k < 0.85:
        return {'k': rng.choice(['star', 'plus', 'opt']), 'c': random_ast(rng, depth + 1, binary, alphabet)}
    q = rng.random()
    if q < 0.4:
        return {'k': 'rep', 'c': random_ast(rng, depth + 1, binary, alphabet), 'n': rng.randint(0, 3)}
    if q < 0.8:
        n = rng.randint(0, 2)
        return {'k': 'range', 'c': random_ast(rng, depth + 1, binary, alphabet), 'n': n, 'm': n + rng.randint(0, 2)}
    return {'k': 'atleast', 'c': random_ast(rng, depth + 1, binary, alphabet), 'n': rng.randint(0, 2)}


CLASSES = 'wWdDsSntr'


def set_algebra():
    """every set built from one or two escape classes (positive and negated), plain and inverted, alone and next to a literal member
    or a range: the unions / complements the compiler has to compute for character classes inside sets"""
    out = []
    for inv in (False, True):
        for a in CLASSES:
            out.append({'k': 'set', 'inv': inv, 'items': [['cc', a]]})
            out.append({'k': 'set', 'inv': inv, 'items': [['cc', a], ['ch', 0x5f]]})
            out.append({'k': 'set', 'inv': inv, 'items': [['range', 0x35, 0x43], ['cc', a]]})
            for b in CLASSES:
                if a < b:
                    out.append({'k': 'set', 'inv': inv, 'items': [['cc', a], ['cc', b]]})
        for a, b, c in (('W', 'D', 'S'), ('w', 'D', 's'), ('W', 'd', 'n')):
            out.append({'k': 'set', 'inv': inv, 'items': [['cc', a], ['cc', b], ['cc', c]]})
    return out
