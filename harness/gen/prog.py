"""Seeded generator of nmfu programs (Python AST + printed source).

AST (plain dicts, also the input of the Lang front end):
  statements
    {"t":"match","m":M}   {"t":"wait","m":M}   {"t":"append","var":v,"m":M}   {"t":"appendc","var":v,"e":E}
    {"t":"set","var":v,"e":E}   {"t":"setstr","var":v,"bytes":[..]}   {"t":"delete","var":v}
    {"t":"hook","n":h}   {"t":"finish","code":c|""}   {"t":"yield","code":c}   {"t":"break","loop":name|None}
    {"t":"loop","name":n|None,"b":[..]}   {"t":"opt","b":[..]}
    {"t":"case","greedy":bool,"cl":[{"ps":[M|"else"],"prio":int,"b":[..]}]}
    {"t":"try","b":[..],"handles":["nomatch","outofspace"]|None,"h":[..]}
    {"t":"foreach","b":[..],"acts":[..]}   {"t":"if","br":[{"c":E,"b":[..]}],"els":[..]|None}
  matches M
    {"k":"str","bytes":[..]}  {"k":"stri","bytes":[..]}  {"k":"bin","bytes":[..]}  {"k":"end"}
    {"k":"re","r":R,"bin":bool}  {"k":"cat","ms":[M..]}
  regex R
    {"k":"ch","c":b} {"k":"cc","n":"w|W|d|D|s|S|n|t|r| "} {"k":"any"} {"k":"set","inv":bool,"items":[["ch",b]|["range",a,b]|["cc",n]]}
    {"k":"seq","c":[R..]} {"k":"alt","c":[R..]} {"k":"star|plus|opt","c":R} {"k":"rep","c":R,"n":n} {"k":"range","c":R,"n":n,"m":m} {"k":"atleast","c":R,"n":n}
  expressions E (printed with full parentheses only where needed by the printer below)
    {"k":"num","v":n} {"k":"chr","c":b} {"k":"bool","v":0|1} {"k":"enum","name":s} {"k":"var","name":v} {"k":"len","name":v}
    {"k":"idx","name":v,"i":E} {"k":"last"} {"k":"bin","op":op,"l":E,"r":E} {"k":"not","e":E} {"k":"neg","e":E}
  program
    {"outs":[decl..],"hooks":[..],"fcodes":[..],"ycodes":[..],"macros":[..],"body":[..],"args":[..]}
    decl: {"name","type":"int|bool|enum|str|raw","signed","width","size","term","values","default"}
"""
import random

PRINTABLE_SAFE = set(range(0x20, 0x7f)) - {ord('"'), ord('\\')}


def spell_bytes(bs):
    out = []
    for i, b in enumerate(bs):
        if b in PRINTABLE_SAFE:
            out.append(chr(b))
        elif b == 10:
            out.append('\\n')
        elif b == 13:
            out.append('\\r')
        elif b == 9:
            out.append('\\t')
        elif b == 0:
            out.append('\\0')
        elif b == ord('"'):
            out.append('\\"')
        elif b == ord('\\'):
            out.append('\\\\')
        else:
            out.append('\\x%02x' % b)
    return '"' + ''.join(out) + '"'


REGEX_SPECIAL = set(map(ord, '.?*()[]\\+{}|/'))


def spell_regex(r, binary=False, top=True):
    k = r['k']
    if k == 'ch':
        c = r['c']
        if binary:
            return '%02x ' % c
        if c in REGEX_SPECIAL:
            return '\\' + chr(c)
        if c == 0x20:
            return '\\ '
        if c == 10:
            return '\\n'
        if c == 9:
            return '\\t'
        if c == 13:
            return '\\r'
        if c == 12:
            raise ValueError('form feed cannot be spelled in a text regex')
        return chr(c)
    if k == 'cc':
        return '\\' + r['n']
    if k == 'any':
        return '.'
    if k == 'set':
        items = []
        for it in r['items']:
            if it[0] == 'ch':
                items.append(spell_set_elem(it[1], binary))
            elif it[0] == 'range':
                lo, hi = it[1], it[2]
                # white space cannot be a raw range endpoint (the lexer ignores it): peel such endpoints off as single elements
                while not binary and lo <= hi and lo in _WS_ESC:
                    items.append(spell_set_elem(lo, binary))
                    lo += 1
                while not binary and lo <= hi and hi in _WS_ESC:
                    items.append(spell_set_elem(hi, binary))
                    hi -= 1
                if lo == hi:
                    items.append(spell_set_elem(lo, binary))
                elif lo < hi:
                    items.append((spell_set_elem(lo, binary).rstrip(' ') if binary else spell_set_elem(lo, binary)) + '-' + spell_set_elem(hi, binary))
            else:
                items.append('\\' + it[1])
        return ('[^' if r['inv'] else '[') + ''.join(items) + ']'
    if k == 'seq':
        return ''.join(spell_regex(x, binary, False) for x in r['c'])
    if k == 'alt':
        s = '|'.join(spell_regex(x, binary, False) for x in r['c'])
        return s if top else '(' + s + ')'
    inner = r['c']
    si = spell_regex(inner, binary, False)
    if inner['k'] in ('seq', 'star', 'plus', 'opt', 'rep', 'range', 'atleast'):
        si = '(' + si + ')'
    if k == 'star':
        return si + '*'
    if k == 'plus':
        return si + '+'
    if k == 'opt':
        return si + '?'
    if k == 'rep':
        return si + '{%d}' % r['n']
    if k == 'range':
        return si + '{%d,%d}' % (r['n'], r['m'])
    if k == 'atleast':
        return si + '{%d,}' % r['n']
    raise ValueError(k)


# "The space character must be escaped, due to limitations in the lexer" (docs/user-ref/parser.md): the grammar ignores
# white space everywhere, also inside sets
_WS_ESC = {0x20: '\\ ', 9: '\\t', 10: '\\n', 13: '\\r'}


def spell_set_elem(c, binary):
    if binary:
        return '%02x ' % c
    if c in _WS_ESC:
        return _WS_ESC[c]
    if c == 12:
        raise ValueError('form feed cannot be spelled in a text regex')
    if chr(c) in '-]\\/':
        return '\\' + chr(c)
    return chr(c)


def spell_match(m):
    k = m['k']
    if k == 'str':
        return spell_bytes(m['bytes'])
    if k == 'stri':
        return spell_bytes(m['bytes']) + 'i'
    if k == 'bin':
        # spacing styles: pairs run together, one blank, two blanks, blanks *inside* the pairs (only the hex digits count)
        sp = m.get('sp', 1)
        if sp == 3:
            digits = ''.join('%02x' % b for b in m['bytes'])
            return '"' + digits[:1] + ''.join(' ' + digits[i:i + 2] for i in range(1, len(digits), 2)) + '"b'
        return '"' + ['', ' ', '  '][sp].join('%02x' % b for b in m['bytes']) + '"b'
    if k == 'end':
        return 'end'
    if k == 're':
        if m.get('bin'):
            return 'b/' + spell_regex(m['r'], True).strip() + '/'
        return '/' + spell_regex(m['r']) + '/'
    if k == 'cat':
        return '(' + ' '.join(spell_match(x) for x in m['ms']) + ')'
    if k == 'arg':
        return m['name']
    raise ValueError(k)


def regex_nullable(r):
    k = r['k']
    if k in ('ch', 'cc', 'any', 'set'):
        return False
    if k == 'seq':
        return all(regex_nullable(x) for x in r['c'])
    if k == 'alt':
        return any(regex_nullable(x) for x in r['c'])
    if k in ('star', 'opt'):
        return True
    if k == 'plus':
        return regex_nullable(r['c'])
    if k in ('rep', 'range', 'atleast'):
        return r['n'] == 0 or regex_nullable(r['c'])
    return False


# ---- does a regex have a word that is a proper prefix of another word?  (its end is then found by lookahead at a state
# that is already finishing; nmfu runs non-strict actions that follow such a match on *every* finishing transition - the
# documented deviation OP8 - so generated programs keep actions away from that position)
_CC = {'d': set(range(48, 58)), 'w': set(range(48, 58)) | set(range(65, 91)) | set(range(97, 123)) | {95}, 's': {32, 9, 10, 13, 11, 12},
       'n': {10}, 't': {9}, 'r': {13}, ' ': {32}}


def _atom_set(r):
    k = r['k']
    if k == 'ch':
        return {r['c']}
    if k == 'any':
        return set(range(256))
    if k == 'cc':
        n = r['n']
        return _CC[n] if n in _CC else set(range(256)) - _CC[n.lower()]
    if k == 'set':
        s = set()
        for it in r['items']:
            if it[0] == 'ch':
                s.add(it[1])
            elif it[0] == 'range':
                s.update(range(it[1], it[2] + 1))
            else:
                s |= _atom_set({'k': 'cc', 'n': it[1]})
        return set(range(256)) - s if r['inv'] else s
    return None


def _desugar(r):
    k = r['k']
    if k in ('ch', 'any', 'cc', 'set'):
        return ('a', frozenset(_atom_set(r)))
    if k == 'seq':
        out = ('e',)
        for x in reversed(r['c']):
            out = ('s', _desugar(x), out)
        return out
    if k == 'alt':
        out = None
        for x in r['c']:
            d = _desugar(x)
            out = d if out is None else ('o', out, d)
        return out
    c = _desugar(r['c'])
    if k == 'star':
        return ('*', c)
    if k == 'plus':
        return ('s', c, ('*', c))
    if k == 'opt':
        return ('o', c, ('e',))
    n = r['n']
    rep = ('e',)
    for _ in range(n):
        rep = ('s', c, rep)
    if k == 'rep':
        return rep
    if k == 'atleast':
        return ('s', rep, ('*', c))
    tail = ('e',)
    for _ in range(r['m'] - n):
        tail = ('o', ('s', c, tail), ('e',))
    return ('s', rep, tail)


def _null(t):
    return t[0] in ('e', '*') or (t[0] == 's' and _null(t[1]) and _null(t[2])) or (t[0] == 'o' and (_null(t[1]) or _null(t[2])))


def _pd(t, b):
    k = t[0]
    if k == 'e':
        return set()
    if k == 'a':
        return {('e',)} if b in t[1] else set()
    if k == 'o':
        return _pd(t[1], b) | _pd(t[2], b)
    if k == '*':
        return {('s', x, t) if x != ('e',) else t for x in _pd(t[1], b)}
    out = {('s', x, t[2]) if x != ('e',) else t[2] for x in _pd(t[1], b)}
    if _null(t[1]):
        out |= _pd(t[2], b)
    return out


def regex_open_ended(r, limit=300):
    t = _desugar(r)
    import itertools
    probe = set()
    def atoms(x):
        if x[0] == 'a':
            probe.update(itertools.islice(sorted(x[1]), 3))
            rest = set(range(256)) - x[1]
            if rest:
                probe.add(min(rest))
        for y in x[1:]:
            if isinstance(y, tuple):
                atoms(y)
    atoms(t)
    start = frozenset([t])
    seen, todo = {start}, [start]
    while todo and len(seen) < limit:
        S = todo.pop()
        fin = any(_null(x) for x in S)
        for b in probe:
            D = frozenset(y for x in S for y in _pd(x, b))
            if not D:
                continue
            if fin:
                return True
            if D not in seen:
                seen.add(D)
                todo.append(D)
    return False


def _is_action_stmt(s):
    return s['t'] in ('set', 'setstr', 'appendc', 'delete', 'hook', 'finish', 'yield', 'break') or (s['t'] == 'if' and all(_is_action_stmt(x) for b in s['br'] for x in b['b']) and all(_is_action_stmt(x) for x in (s.get('els') or [])))


def avoid_op8(stmts, sep=(0x7e,)):
    """insert a literal between a match whose regex is open-ended and an action that directly follows it (recursively)"""
    out = []
    for i, s in enumerate(stmts):
        for key in ('b', 'h', 'els'):
            if isinstance(s.get(key), list) and s['t'] != 'if':
                s[key] = avoid_op8(s[key], sep)
        if s['t'] == 'if':
            for b in s['br']:
                b['b'] = avoid_op8(b['b'], sep)
            if s.get('els'):
                s['els'] = avoid_op8(s['els'], sep)
        if s['t'] == 'case':
            for cl in s['cl']:
                cl['b'] = avoid_op8(cl['b'], sep)
        out.append(s)
        m = s.get('m') if s['t'] in ('match', 'append') else None
        if m and m.get('k') == 're' and i + 1 < len(stmts) and _is_action_stmt(stmts[i + 1]) and regex_open_ended(m['r']):
            out.append({'t': 'match', 'm': {'k': 'str', 'bytes': list(sep)}})
    return out


# C-like precedence levels of the nmfu grammar (higher binds tighter)
PREC = {'||': 1, '&&': 2, '|': 3, '^': 4, '&': 5, '==': 6, '!=': 6, '<': 6, '>': 6, '<=': 6, '>=': 6,
        '<<': 7, '>>': 7, '+': 8, '-': 8, '*': 9, '/': 9, '%': 9}
NONASSOC = {'==', '!=', '<', '>', '<=', '>=', '<<', '>>'}


def spell_chr(c):
    if c == 10:
        return "'\\n'"
    if c == 13:
        return "'\\r'"
    if c == 9:
        return "'\\t'"
    if c == 8:
        return "'\\b'"
    if c == ord("'"):
        return "'\\''"
    if c == ord('\\'):
        return "'\\\\'"
    return "'" + chr(c) + "'"


def spell_expr(e, ctx=0):
    """minimal parentheses under the grammar's precedence; ctx = minimum precedence allowed unparenthesised"""
    k = e['k']
    if k == 'num':
        v = e['v']
        rad = e.get('radix', 10)
        if rad == 16:
            return ('-' if v < 0 else '') + '0x%X' % abs(v)
        if rad == 2 and v >= 0:
            return '0b' + bin(v)[2:]
        return str(v)
    if k == 'chr':
        return spell_chr(e['c'])
    if k == 'bool':
        return 'true' if e['v'] else 'false'
    if k == 'enum':
        return e['name']
    if k == 'var':
        return e['name']
    if k == 'arg':
        return e['name']
    if k == 'len':
        return e['name'] + '.len'
    if k == 'idx':
        return '%s[%s]' % (e['name'], spell_expr(e['i'], 0))
    if k == 'last':
        return '$last'
    if k == 'not':
        return '!' + spell_atom(e['e'])
    if k == 'neg':
        return '-' + spell_atom(e['e'])
    if k == 'bin':
        p = PREC[e['op']]
        if e['op'] in NONASSOC:
            l = spell_expr(e['l'], p + 1)
            r = spell_expr(e['r'], p + 1)
        else:
            l = spell_expr(e['l'], p)
            r = spell_expr(e['r'], p + 1)
        s = '%s %s %s' % (l, e['op'], r)
        return '(' + s + ')' if p < ctx else s
    raise ValueError(k)


def spell_atom(e):
    if e['k'] in ('num', 'chr', 'bool', 'var', 'len', 'idx', 'last', 'enum', 'arg') and not (e['k'] == 'num' and e['v'] < 0):
        return spell_expr(e)
    return '(' + spell_expr(e) + ')'


def spell_rhs(e):
    """right-hand side of an assignment: bare literal atoms are allowed, everything else needs [ ]"""
    if e['k'] in ('num', 'chr', 'bool', 'enum'):
        return spell_expr(e)
    return '[' + spell_expr(e) + ']'


_CALL_KINDS = {}


def spell_stmts(ss, ind):
    return ''.join(spell_stmt(s, ind) for s in ss)


def spell_stmt(s, ind=1):
    I = '    ' * ind
    t = s['t']
    if t == 'match':
        return I + spell_match(s['m']) + ';\n'
    if t == 'wait':
        return I + 'wait ' + spell_match(s['m']) + ';\n'
    if t == 'append':
        return I + '%s += %s;\n' % (s['var'], spell_match(s['m']))
    if t == 'appendc':
        return I + '%s += [%s];\n' % (s['var'], spell_expr(s['e']))
    if t == 'set':
        return I + '%s = %s;\n' % (s['var'], spell_rhs(s['e']))
    if t == 'setstr':
        return I + '%s = %s;\n' % (s['var'], spell_bytes(s['bytes']))
    if t == 'delete':
        return I + 'delete %s;\n' % s['var']
    if t == 'hook':
        return I + s['n'] + '();\n'
    if t == 'call':
        kinds = s.get('_kinds') or _CALL_KINDS.get(s['n'])
        argv = s.get('argv') or []
        if kinds is None:
            kinds = ['expr'] * len(argv)
        sp = []
        for i, a in enumerate(argv):
            k = kinds[i] if i < len(kinds) else 'expr'
            sp.append(a if isinstance(a, str) else spell_call_arg(k, a))
        return I + s['n'] + '(' + ', '.join(sp) + ');\n'
    if t == 'finish':
        return I + ('finish %s;\n' % s['code'] if s['code'] else 'finish;\n')
    if t == 'yield':
        return I + 'yield %s;\n' % s['code']
    if t == 'break':
        return I + ('break %s;\n' % s['loop'] if s.get('loop') else 'break;\n')
    if t == 'loop':
        return I + 'loop %s{\n' % (s['name'] + ' ' if s.get('name') else '') + spell_stmts(s['b'], ind + 1) + I + '}\n'
    if t == 'opt':
        return I + 'optional {\n' + spell_stmts(s['b'], ind + 1) + I + '}\n'
    if t == 'case':
        out = I + ('greedy case {\n' if s.get('greedy') else 'case {\n')
        for cl in s['cl']:
            ps = ', '.join('else' if p == 'else' else spell_match(p) for p in cl['ps'])
            pr = 'prio %d ' % cl['prio'] if s.get('greedy') and cl.get('prio') else ''
            out += I + '    ' + pr + ps + ' -> {\n' + spell_stmts(cl['b'], ind + 2) + I + '    }\n'
        return out + I + '}\n'
    if t == 'try':
        h = ''
        if s.get('handles') is not None:
            h = ' (' + ', '.join(s['handles']) + ')'
        return I + 'try {\n' + spell_stmts(s['b'], ind + 1) + I + '}\n' + I + 'catch%s {\n' % h + spell_stmts(s['h'], ind + 1) + I + '}\n'
    if t == 'foreach':
        return I + 'foreach {\n' + spell_stmts(s['b'], ind + 1) + I + '} do {\n' + spell_stmts(s['acts'], ind + 1) + I + '}\n'
    if t == 'if':
        out = ''
        for j, br in enumerate(s['br']):
            out += I + ('if ' if j == 0 else 'elif ') + spell_expr(br['c']) + ' {\n' + spell_stmts(br['b'], ind + 1) + I + '}\n'
        if s.get('els') is not None:
            out += I + 'else {\n' + spell_stmts(s['els'], ind + 1) + I + '}\n'
        return out
    raise ValueError(t)


def spell_decl(d):
    t = d['type']
    if t == 'int':
        attrs = []
        if d.get('signed') is not None:
            attrs.append('signed' if d['signed'] else 'unsigned')
        if d.get('width') is not None:
            attrs.append('size %d' % d['width'])
        ty = 'int' + ('{' + ', '.join(attrs) + '}' if attrs else '')
    elif t == 'bool':
        ty = 'bool'
    elif t == 'enum':
        ty = 'enum{' + ','.join(d['values']) + '}'
    elif t == 'str':
        ty = ('str[%d]' if d.get('term', True) else 'unterminated str[%d]') % d['size']
    elif t == 'raw':
        ty = 'raw{%s}' % d['raw']
    dv = ''
    if d.get('default') is not None:
        v = d['default']
        if t == 'str':
            dv = ' = ' + spell_bytes(v)
        elif t == 'bool':
            dv = ' = ' + ('true' if v else 'false')
        elif t == 'enum':
            dv = ' = ' + v
        else:
            dv = ' = %d' % v
    return 'out %s %s%s;\n' % (ty, d['name'], dv)


def spell_program(p):
    out = ''
    if p.get('args'):
        out += '// args: ' + ' '.join(p['args']) + '\n'
    for d in p['outs']:
        out += spell_decl(d)
    for h in p['hooks']:
        out += 'hook %s;\n' % h
    if p['fcodes']:
        out += 'finishcode ' + ', '.join(p['fcodes']) + ';\n'
    if p['ycodes']:
        out += 'yieldcode ' + ', '.join(p['ycodes']) + ';\n'
    _CALL_KINDS.clear()
    for m in p.get('macros', []):
        _CALL_KINDS[m['name']] = [k for k, n in m['params']]
    for m in p.get('macros', []):
        for k, n in m['params']:
            if k == 'macro':
                _CALL_KINDS.setdefault(n, [])
        out += 'macro %s(%s) {\n' % (m['name'], ', '.join('%s %s' % (k, n) for k, n in m['params'])) + spell_stmts(m['b'], 1) + '}\n'
    out += 'parser {\n' + spell_stmts(p['body'], 1) + '}\n'
    return out


# ---------------------------------------------------------------------------
class Gen:
    """Random statement programs over a small alphabet.

    features: set of construct names that may be used:
      str int bool enum raw hook loop case greedy opt try foreach if wait yield finish end regex stri bin
      appendc setstr delete idx condact
    """

    def __init__(self, seed, features=None, alphabet=b'abcdexyz', maxdepth=3, maxstmts=4):
        self.r = random.Random(seed)
        self.f = set(features) if features is not None else {
            'str', 'int', 'bool', 'enum', 'hook', 'loop', 'case', 'opt', 'try', 'foreach', 'if', 'wait', 'finish',
            'regex', 'stri', 'appendc', 'setstr', 'delete', 'idx', 'condact', 'greedy', 'idiom'}
        self.alpha = list(alphabet)
        self.maxdepth = maxdepth
        self.maxstmts = maxstmts
        self.loops = []
        self.nloop = 0

    # ---- declarations
    def decls(self):
        r = self.r
        outs = []
        if 'str' in self.f:
            for i in range(r.randint(1, 2)):
                term = r.random() < 0.7
                size = r.randint(2, 5) if term else r.randint(1, 4)
                d = {'name': 's%d' % i, 'type': 'str', 'size': size, 'term': term, 'default': None}
                if r.random() < 0.25:
                    cap = size - 1 if term else size
                    d['default'] = [r.choice(self.alpha) for _ in range(r.randint(0, cap))]
                outs.append(d)
        if 'int' in self.f:
            for i in range(r.randint(1, 2)):
                w = r.choice([None, 1, 2, 4])
                sg = r.choice([None, True, False]) if w != 4 else r.choice([None, True])
                d = {'name': 'n%d' % i, 'type': 'int', 'signed': sg, 'width': w, 'default': r.choice([None, 0, 1, 3])}
                outs.append(d)
        if 'bool' in self.f and r.random() < 0.6:
            outs.append({'name': 'b0', 'type': 'bool', 'default': r.choice([None, 0, 1])})
        if 'enum' in self.f and r.random() < 0.6:
            vals = ['EA', 'EB', 'EC'][:r.randint(2, 3)]
            outs.append({'name': 'e0', 'type': 'enum', 'values': vals, 'default': None})
        if 'raw' in self.f and r.random() < 0.4:
            outs.append({'name': 'r0', 'type': 'raw', 'raw': r.choice(['uint16_t', 'uint32_t', 'uint64_t'])})
        self.outs = outs
        self.strs = [o for o in outs if o['type'] in ('str', 'raw')]
        self.ints = [o for o in outs if o['type'] == 'int']
        self.bools = [o for o in outs if o['type'] == 'bool']
        self.enums = [o for o in outs if o['type'] == 'enum']
        self.hooks = ['h%d' % i for i in range(r.randint(1, 3))] if 'hook' in self.f else []
        self.fcodes = ['F%d' % i for i in range(r.randint(0, 2))] if 'finish' in self.f else []
        self.ycodes = ['Y%d' % i for i in range(r.randint(1, 3))] if 'yield' in self.f else []

    # ---- matches
    def lit(self, n=None):
        r = self.r
        n = n or r.choice([1, 1, 2, 2, 3])
        return [r.choice(self.alpha) for _ in range(n)]

    def regex(self, depth=0):
        r = self.r
        k = r.random()
        if depth >= 2 or k < 0.35:
            q = r.random()
            if q < 0.55:
                return {'k': 'ch', 'c': r.choice(self.alpha)}
            if q < 0.7:
                items = [['ch', r.choice(self.alpha)] for _ in range(r.randint(1, 3))]
                if r.random() < 0.3:
                    a = r.choice(self.alpha)
                    items.append(['range', a, min(a + r.randint(0, 3), 255)])
                return {'k': 'set', 'inv': r.random() < 0.3, 'items': items}
            if q < 0.8:
                return {'k': 'cc', 'n': r.choice(['d', 'w', 's', 'D', 'S', 'W'])}
            if q < 0.87:
                return {'k': 'any'}
            return {'k': 'ch', 'c': r.choice(self.alpha)}
        if k < 0.6:
            return {'k': 'seq', 'c': [self.regex(depth + 1) for _ in range(r.randint(2, 3))]}
        if k < 0.72:
            return {'k': 'alt', 'c': [self.regex(depth + 1) for _ in range(2)]}
        if k < 0.9:
            return {'k': r.choice(['star', 'plus', 'plus', 'opt']), 'c': self.regex(depth + 1)}
        q = r.random()
        if q < 0.4:
            return {'k': 'rep', 'c': self.regex(depth + 1), 'n': r.randint(1, 3)}
        if q < 0.8:
            n = r.randint(0, 2)
            return {'k': 'range', 'c': self.regex(depth + 1), 'n': n, 'm': n + r.randint(0, 2)}
        return {'k': 'atleast', 'c': self.regex(depth + 1), 'n': r.randint(0, 2)}

    def match(self, allow_end=False, simple=False):
        r = self.r
        k = r.random()
        if allow_end and 'end' in self.f and k < 0.12:
            return {'k': 'end'}
        if simple or k < 0.5:
            return {'k': 'str', 'bytes': self.lit()}
        if k < 0.58 and 'stri' in self.f:
            return {'k': 'stri', 'bytes': self.lit()}
        if k < 0.63 and 'bin' in self.f:
            return {'k': 'bin', 'bytes': self.lit()}
        if k < 0.9 and 'regex' in self.f:
            rx = self.regex()
            # a top-level regex must not be nullable-only garbage like (a*)? - keep whatever comes, compiler decides
            return {'k': 're', 'r': rx, 'bin': False}
        if k < 0.95:
            return {'k': 'cat', 'ms': [{'k': 'str', 'bytes': self.lit(1)}, {'k': 'str', 'bytes': self.lit(1)}]}
        return {'k': 'str', 'bytes': self.lit()}

    # ---- expressions
    def int_atom(self, allow_last):
        r = self.r
        c = []
        c.append(lambda: {'k': 'num', 'v': r.choice([0, 1, 2, 3, 5, 10, 48, 100, 127, 255])})
        c.append(lambda: {'k': 'chr', 'c': r.choice(self.alpha)})
        if self.ints:
            c.append(lambda: {'k': 'var', 'name': r.choice(self.ints)['name']})
            c.append(lambda: {'k': 'var', 'name': r.choice(self.ints)['name']})
        if self.strs:
            c.append(lambda: {'k': 'len', 'name': r.choice(self.strs)['name']})
            if 'idx' in self.f:
                def mkidx():
                    sv = r.choice(self.strs)
                    size = sv.get('size') or {'uint16_t': 2, 'uint32_t': 4, 'uint64_t': 8}.get(sv.get('raw'), 1)
                    hi = size - 1 if 'idx_inrange' in self.f else 4
                    if 'idx_inrange' not in self.f and r.random() < 0.5:
                        # computed indices: last character, offset from $last, a variable
                        ch = [{'k': 'bin', 'op': '-', 'l': {'k': 'len', 'name': sv['name']}, 'r': {'k': 'num', 'v': 1}}]
                        if allow_last:
                            ch.append({'k': 'bin', 'op': '-', 'l': {'k': 'last'}, 'r': {'k': 'chr', 'c': r.choice(self.alpha)}})
                        if self.ints:
                            ch.append({'k': 'var', 'name': r.choice(self.ints)['name']})
                        return {'k': 'idx', 'name': sv['name'], 'i': r.choice(ch)}
                    return {'k': 'idx', 'name': sv['name'], 'i': {'k': 'num', 'v': r.randint(0, max(0, hi))}}
                c.append(mkidx)
        if allow_last:
            c.append(lambda: {'k': 'last'})
            c.append(lambda: {'k': 'last'})
        return r.choice(c)()

    def int_expr(self, allow_last, depth=0):
        r = self.r
        if depth >= 2 or r.random() < 0.4:
            return self.int_atom(allow_last)
        op = r.choice(['+', '+', '-', '*', '&', '|', '^', '%', '/', '<<', '>>'])
        l = self.int_expr(allow_last, depth + 1)
        if op in ('%', '/'):
            rr = {'k': 'num', 'v': r.choice([1, 2, 3, 7, 10])}
        elif op in ('<<', '>>'):
            rr = {'k': 'num', 'v': r.randint(0, 4)}
        else:
            rr = self.int_expr(allow_last, depth + 1)
        return {'k': 'bin', 'op': op, 'l': l, 'r': rr}

    def cond_expr(self, allow_last, depth=0):
        r = self.r
        k = r.random()
        if depth < 2 and k < (0.3 if depth == 0 else 0.25):
            return {'k': 'bin', 'op': r.choice(['&&', '||']), 'l': self.cond_expr(allow_last, depth + 1), 'r': self.cond_expr(allow_last, depth + 1)}
        if k < 0.3 and self.bools:
            return {'k': 'var', 'name': self.bools[0]['name']}
        if k < 0.4 and self.enums:
            e = self.enums[0]
            return {'k': 'bin', 'op': r.choice(['==', '!=']), 'l': {'k': 'var', 'name': e['name']}, 'r': {'k': 'enum', 'name': r.choice(e['values'])}}
        if k < 0.5 and depth < 1:
            return {'k': 'not', 'e': self.cond_expr(allow_last, depth + 1)}
        return {'k': 'bin', 'op': r.choice(['==', '!=', '<', '>', '<=', '>=']), 'l': self.int_expr(allow_last, 1), 'r': self.int_atom(False)}

    # ---- actions
    def action(self, allow_last=True, in_loop=False, allow_cond=2):
        r = self.r
        c = []
        if self.hooks:
            c += [lambda: {'t': 'hook', 'n': r.choice(self.hooks)}] * 3
        if self.ints:
            c += [lambda: {'t': 'set', 'var': r.choice(self.ints)['name'], 'e': self.int_expr(allow_last)}] * 3
        if self.bools:
            c.append(lambda: {'t': 'set', 'var': self.bools[0]['name'], 'e': {'k': 'bool', 'v': r.randint(0, 1)}})
        if self.enums:
            c.append(lambda: {'t': 'set', 'var': self.enums[0]['name'], 'e': {'k': 'enum', 'name': r.choice(self.enums[0]['values'])}})
        strs = [s for s in self.strs if s['type'] == 'str']
        if strs and 'setstr' in self.f:
            def mk():
                s = r.choice(strs)
                cap = s['size'] - 1 if s['term'] else s['size']
                return {'t': 'setstr', 'var': s['name'], 'bytes': [r.choice(self.alpha) for _ in range(r.randint(0, cap))]}
            c.append(mk)
        if self.strs and 'delete' in self.f:
            c.append(lambda: {'t': 'delete', 'var': r.choice(self.strs)['name']})
        if self.strs and 'appendc' in self.f:
            c.append(lambda: {'t': 'appendc', 'var': r.choice(self.strs)['name'], 'e': self.int_expr(allow_last)})
        if in_loop and self.loops:
            c.append(lambda: {'t': 'break', 'loop': None if r.random() < 0.7 else self.loops[-1]})
        if 'finish' in self.f:
            c.append(lambda: {'t': 'finish', 'code': r.choice([''] + self.fcodes)})
        if 'yield' in self.f and self.ycodes:
            c += [lambda: {'t': 'yield', 'code': r.choice(self.ycodes)}] * 2
        if allow_cond and 'condact' in self.f and 'if' in self.f:
            def mk():
                nxt = int(allow_cond) - 1
                br = [{'c': self.cond_expr(allow_last), 'b': [self.action(allow_last, in_loop, nxt) for _ in range(r.randint(1, 2))]}]
                if r.random() < 0.25:
                    br.append({'c': self.cond_expr(allow_last), 'b': [self.action(allow_last, in_loop, nxt)]})
                els = [self.action(allow_last, in_loop, nxt)] if r.random() < 0.4 else None
                return {'t': 'if', 'br': br, 'els': els}
            c.append(mk)
        if not c:
            return None
        return r.choice(c)()

    # ---- statements
    def block(self, depth, in_loop=False, must_match_first=True, minlen=1, allow_end=False):
        r = self.r
        n = r.randint(minlen, self.maxstmts)
        out = []
        for i in range(n):
            first = (i == 0 and must_match_first)
            if 'idiom' in self.f and depth <= 1 and r.random() < 0.22:
                ss = self.idiom(depth, in_loop)
                if ss:
                    out.extend(ss)
                    continue
            s = self.stmt(depth, in_loop, first, allow_end=allow_end and i == n - 1)
            if s is not None:
                out.append(s)
                if s['t'] == 'loop' and r.random() < 0.45:
                    a = self.action(False, in_loop, 1)
                    if a is not None and a['t'] not in ('break',):
                        out.append(a)
        if must_match_first and (not out or out[0]['t'] not in ('match', 'append', 'case', 'wait', 'foreach', 'loop', 'try')):
            out.insert(0, {'t': 'match', 'm': {'k': 'str', 'bytes': self.lit(1)}})
        return out

    def stmt(self, depth, in_loop, must_match, allow_end=False):
        r = self.r
        k = r.random()
        f = self.f
        if must_match:
            k = k * 0.45
        elif k >= 0.45 and k < 0.7:
            a = self.action(True, in_loop)
            if a is not None:
                return a
        if k < 0.22:
            return {'t': 'match', 'm': self.match(allow_end=allow_end)}
        if k < 0.33 and self.strs:
            return {'t': 'append', 'var': r.choice(self.strs)['name'], 'm': self.match()}
        if k < 0.36 and 'wait' in f:
            m = self.match(simple=r.random() < 0.7)
            if m['k'] == 're' and regex_nullable(m['r']):
                m = {'k': 'str', 'bytes': self.lit()}        # waiting for the empty string is meaningless
            return {'t': 'wait', 'm': m}
        if depth >= self.maxdepth:
            return {'t': 'match', 'm': self.match()}
        if k < 0.45 and 'case' in f:
            return self.case(depth, in_loop)
        k = r.random()
        if k < 0.2 and 'loop' in f:
            self.nloop += 1
            name = 'L%d' % self.nloop if r.random() < 0.4 else None
            self.loops.append(name)
            b = self.block(depth + 1, True)
            # make sure there is a way out
            if r.random() < 0.85:
                b.append(r.choice([
                    {'t': 'if', 'br': [{'c': self.cond_expr(True), 'b': [{'t': 'break', 'loop': None}]}], 'els': None},
                    {'t': 'if', 'br': [{'c': self.cond_expr(True), 'b': [{'t': 'break', 'loop': None}]}], 'els': None},
                    {'t': 'if', 'br': [{'c': self.cond_expr(True), 'b': [
                        {'t': 'if', 'br': [{'c': self.cond_expr(True), 'b': [{'t': 'break', 'loop': None}]}], 'els': None}] +
                        ([self.action(True, False, 0)] if self.ints or self.hooks else [])}], 'els': None},
                    {'t': 'case', 'greedy': False, 'cl': [{'ps': [{'k': 'str', 'bytes': self.lit(1)}], 'prio': 0, 'b': [{'t': 'break', 'loop': None}]},
                                                           {'ps': ['else'], 'prio': 0, 'b': []}]},
                ]))
            self.loops.pop()
            return {'t': 'loop', 'name': name, 'b': b}
        if k < 0.35 and 'opt' in f:
            return {'t': 'opt', 'b': self.block(depth + 1, in_loop)}
        if k < 0.55 and 'try' in f:
            handles = r.choice([None, ['nomatch'], ['outofspace'], ['nomatch', 'outofspace']])
            h = self.block(depth + 1, in_loop, must_match_first=r.random() < 0.6, minlen=0) if r.random() < 0.85 else []
            return {'t': 'try', 'b': self.block(depth + 1, in_loop), 'handles': handles, 'h': h}
        if k < 0.65 and 'foreach' in f:
            def _ctl(a):
                # control transfers (also nested in conditional actions) are not each-character actions
                if a['t'] in ('finish', 'yield', 'break'):
                    return True
                if a['t'] == 'if':
                    return any(_ctl(x) for b in a['br'] for x in b['b']) or any(_ctl(x) for x in (a.get('els') or []))
                return False
            acts = [a for a in (self.action(True, False, 1) for _ in range(r.randint(1, 2))) if a is not None and not _ctl(a)]
            if acts:
                if depth < self.maxdepth and r.random() < 0.45:
                    # a structured body (nested loop / try / case ...): the do-actions run once per consumed byte, never on
                    # the moves inside the body that consume nothing
                    # (known finding foreach-wait-end-each-actions: no `wait` inside a foreach body)
                    saved = self.f
                    self.f = self.f - {'wait', 'idiom'}
                    try:
                        return {'t': 'foreach', 'b': self.block(depth + 1, in_loop), 'acts': acts}
                    finally:
                        self.f = saved
                return {'t': 'foreach', 'b': [{'t': 'match', 'm': self.match()}] + ([{'t': 'match', 'm': self.match()}] if r.random() < 0.3 else []), 'acts': acts}
        if k < 0.8 and 'if' in f:
            br = [{'c': self.cond_expr(True), 'b': self.block(depth + 1, in_loop, must_match_first=r.random() < 0.7)} for _ in range(r.randint(1, 2))]
            els = self.block(depth + 1, in_loop, must_match_first=r.random() < 0.7) if r.random() < 0.5 else None
            return {'t': 'if', 'br': br, 'els': els}
        return {'t': 'match', 'm': self.match()}

    # ---- idioms: shapes real nmfu programs are built from (bracket counters, accumulate-until-delimiter, number parsing)
    def idiom(self, depth, in_loop):
        r = self.r
        A = self.alpha
        cands = []
        ints = [o for o in self.ints]
        strs = [o for o in self.strs]

        def cls(bs):
            return {'k': 're', 'r': {'k': 'set', 'inv': False, 'items': [['ch', b] for b in bs]}, 'bin': False}

        def lasteq(b):
            return {'k': 'bin', 'op': '==', 'l': {'k': 'last'}, 'r': {'k': 'chr', 'c': b}}

        def accumulate():
            # loop { /[set]/; if $last == delim { break; } buf += [$last]; }  [after-break action]  "lit";
            bs = r.sample(A, min(len(A), r.randint(2, 4)))
            delim = bs[0]
            body = [{'t': 'match', 'm': cls(bs)}, {'t': 'if', 'br': [{'c': lasteq(delim), 'b': [{'t': 'break', 'loop': None}]}], 'els': None}]
            if strs:
                body.append({'t': 'appendc', 'var': r.choice(strs)['name'], 'e': {'k': 'last'}})
            elif ints:
                body.append({'t': 'set', 'var': ints[0]['name'], 'e': {'k': 'bin', 'op': '+', 'l': {'k': 'var', 'name': ints[0]['name']}, 'r': {'k': 'num', 'v': 1}}})
            out = [{'t': 'loop', 'name': None, 'b': body}]
            if strs and r.random() < 0.6:
                out.append({'t': 'appendc', 'var': r.choice(strs)['name'], 'e': {'k': 'num', 'v': r.choice(A)}})
            elif self.hooks and r.random() < 0.5:
                out.append({'t': 'hook', 'n': r.choice(self.hooks)})
            out.append({'t': 'match', 'm': {'k': 'str', 'bytes': self.lit()}})
            return out

        def brackets():
            # nested conditional break: depth counter
            if not ints:
                return None
            n = ints[0]['name']
            op, cl = r.sample(A, 2)
            others = [b for b in A if b not in (op, cl)][:2]
            v = {'k': 'var', 'name': n}
            body = [{'t': 'match', 'm': cls([op, cl] + others)},
                    {'t': 'if', 'br': [
                        {'c': lasteq(op), 'b': [{'t': 'set', 'var': n, 'e': {'k': 'bin', 'op': '+', 'l': v, 'r': {'k': 'num', 'v': 1}}}]},
                        {'c': lasteq(cl), 'b': [
                            {'t': 'if', 'br': [{'c': {'k': 'bin', 'op': '==', 'l': v, 'r': {'k': 'num', 'v': 0}}, 'b': [{'t': 'break', 'loop': None}]}], 'els': None},
                            {'t': 'set', 'var': n, 'e': {'k': 'bin', 'op': '-', 'l': v, 'r': {'k': 'num', 'v': 1}}}]}], 'els': None}]
            return [{'t': 'set', 'var': n, 'e': {'k': 'num', 'v': 0}}, {'t': 'match', 'm': {'k': 'str', 'bytes': [op]}},
                    {'t': 'loop', 'name': None, 'b': body}, {'t': 'match', 'm': {'k': 'str', 'bytes': self.lit()}}]

        def number():
            if not ints:
                return None
            n = ints[0]['name']
            v = {'k': 'var', 'name': n}
            out = [{'t': 'set', 'var': n, 'e': {'k': 'num', 'v': 0}},
                   {'t': 'foreach', 'b': [{'t': 'match', 'm': {'k': 're', 'r': {'k': 'plus', 'c': {'k': 'cc', 'n': 'd'}}, 'bin': False}}],
                    'acts': [{'t': 'set', 'var': n, 'e': {'k': 'bin', 'op': '+', 'l': {'k': 'bin', 'op': '*', 'l': v, 'r': {'k': 'num', 'v': 10}},
                                                          'r': {'k': 'bin', 'op': '-', 'l': {'k': 'last'}, 'r': {'k': 'chr', 'c': 48}}}}]},
                   {'t': 'match', 'm': {'k': 'str', 'bytes': [r.choice(A)]}}]
            if r.random() < 0.6:
                out.append({'t': 'if', 'br': [{'c': {'k': 'bin', 'op': r.choice(['>', '<', '==']), 'l': v, 'r': {'k': 'num', 'v': r.choice([0, 3, 12, 100])}},
                                               'b': self.block(depth + 1, in_loop, must_match_first=r.random() < 0.5)}], 'els': None})
            return out

        def capture():
            if not strs:
                return None
            sv = r.choice(strs)['name']
            h = [{'t': 'wait', 'm': {'k': 'str', 'bytes': [r.choice(A)]}}] if r.random() < 0.5 else [{'t': 'delete', 'var': sv}, {'t': 'match', 'm': {'k': 'str', 'bytes': self.lit(1)}}]
            return [{'t': 'try', 'b': [{'t': 'append', 'var': sv, 'm': {'k': 're', 'r': {'k': 'plus', 'c': {'k': 'set', 'inv': False, 'items': [['ch', b] for b in r.sample(A, 3)]}}, 'bin': False}},
                                       {'t': 'match', 'm': {'k': 'str', 'bytes': [r.choice(A)]}}], 'handles': ['outofspace'], 'h': h}]
        def records():
            # loop { [optional { "#"; ... }] wait <delimiter>; count / hook }   (line- or record-oriented parsers)
            delim = [r.choice(A)] if r.random() < 0.5 else self.lit(2)
            body = []
            if r.random() < 0.4:
                cm = r.choice([b for b in A if b not in delim] or A)
                body.append({'t': 'opt', 'b': [{'t': 'match', 'm': {'k': 'str', 'bytes': [cm]}}] + ([{'t': 'hook', 'n': r.choice(self.hooks)}] if self.hooks else [])})
            if r.random() < 0.7:
                body.append({'t': 'wait', 'm': {'k': 'str', 'bytes': delim}})
            else:
                body.append({'t': 'match', 'm': {'k': 're', 'r': {'k': 'seq', 'c': [{'k': 'star', 'c': {'k': 'set', 'inv': True, 'items': [['ch', delim[0]]]}}, {'k': 'ch', 'c': delim[0]}]}, 'bin': False}})
            if ints:
                n = ints[0]['name']
                body.append({'t': 'set', 'var': n, 'e': {'k': 'bin', 'op': '+', 'l': {'k': 'var', 'name': n}, 'r': {'k': 'num', 'v': 1}}})
            if self.hooks:
                body.append({'t': 'hook', 'n': r.choice(self.hooks)})
            if in_loop is False and r.random() < 0.5 and ints:
                body.append({'t': 'if', 'br': [{'c': {'k': 'bin', 'op': '>=', 'l': {'k': 'var', 'name': ints[0]['name']}, 'r': {'k': 'num', 'v': r.choice([2, 3])}},
                                                'b': [{'t': 'break', 'loop': None}]}], 'els': None})
                return [{'t': 'loop', 'name': None, 'b': body}, {'t': 'match', 'm': {'k': 'str', 'bytes': self.lit(1)}}]
            return [{'t': 'loop', 'name': None, 'b': body}]
        for f in (accumulate, accumulate, brackets, number, capture, records, records):
            cands.append(f)
        res = r.choice(cands)()
        return res

    def case(self, depth, in_loop):
        r = self.r
        greedy = 'greedy' in self.f and r.random() < 0.3
        n = r.randint(2, 4)
        cl = []
        firsts = r.sample(self.alpha, min(n, len(self.alpha)))
        for i in range(n):
            if greedy or r.random() < 0.3:
                ps = [self.match()]
            else:
                ps = [{'k': 'str', 'bytes': [firsts[i]] + self.lit(r.randint(0, 2))[:r.randint(0, 2)]}]
            if r.random() < 0.15:
                ps.append({'k': 'str', 'bytes': self.lit()})
            body = self.block(depth + 1, in_loop, must_match_first=r.random() < 0.4, minlen=0) if r.random() < 0.85 else []
            cl.append({'ps': ps, 'prio': r.choice([0, 0, 1, 2]) if greedy else 0, 'b': body})
        if r.random() < 0.5:
            body = self.block(depth + 1, in_loop, must_match_first=r.random() < 0.4, minlen=0) if r.random() < 0.7 else []
            cl.append({'ps': ['else'], 'prio': 0, 'b': body})
        return {'t': 'case', 'greedy': greedy, 'cl': cl}

    def program(self, args=()):
        self.decls()
        body = avoid_op8(self.block(0, False, must_match_first=self.r.random() < 0.8, minlen=2))
        return {'outs': self.outs, 'hooks': self.hooks, 'fcodes': self.fcodes, 'ycodes': self.ycodes, 'macros': [], 'body': body,
                'args': list(args)}


def gen_cond_program(seed):
    """small programs whose behaviour is decided by a nested boolean condition over 3 bool outputs (C06/C14):
    the condition appears as a condition point (if with a consuming body) and as a conditional action"""
    r = random.Random(seed)
    outs = [{'name': 'b%d' % i, 'type': 'bool', 'default': None} for i in range(3)]
    outs.append({'name': 'n0', 'type': 'int', 'signed': None, 'width': None, 'default': 0})

    def atom():
        k = r.random()
        if k < 0.75:
            return {'k': 'var', 'name': 'b%d' % r.randrange(3)}
        if k < 0.85:
            return {'k': 'not', 'e': {'k': 'var', 'name': 'b%d' % r.randrange(3)}}
        return {'k': 'bin', 'op': r.choice(['==', '<', '!=']), 'l': {'k': 'last'}, 'r': {'k': 'chr', 'c': r.choice(b'abc')}}

    def cond(d):
        if d == 0 or r.random() < 0.2:
            return atom()
        return {'k': 'bin', 'op': r.choice(['&&', '||']), 'l': cond(d - 1), 'r': cond(d - 1)}
    c1, c2 = cond(2), cond(2)
    body = [{'t': 'match', 'm': {'k': 're', 'r': {'k': 'set', 'inv': False, 'items': [['ch', 97], ['ch', 98], ['ch', 99]]}, 'bin': False}},
            {'t': 'if', 'br': [{'c': c1, 'b': [{'t': 'set', 'var': 'n0', 'e': {'k': 'num', 'v': 1}}]}], 'els': [{'t': 'set', 'var': 'n0', 'e': {'k': 'num', 'v': 2}}]},
            {'t': 'match', 'm': {'k': 'str', 'bytes': [120]}},
            {'t': 'if', 'br': [{'c': c2, 'b': [{'t': 'match', 'm': {'k': 'str', 'bytes': [121]}}]}], 'els': [{'t': 'match', 'm': {'k': 'str', 'bytes': [122]}}]},
            {'t': 'match', 'm': {'k': 'str', 'bytes': [119]}}]
    p = {'outs': outs, 'hooks': [], 'fcodes': [], 'ycodes': [], 'macros': [], 'body': body, 'args': []}
    return p, spell_program(p)


def gen_break_program(seed):
    """action-context family (C02/C06/C10): actions that the code generator emits in a nested context - the actions that
    follow a loop left through a conditional break (emitted as "break subactions" inside the breaking transition),
    conditional actions under nested ifs - with small buffers, so that the out-of-space redirect strikes inside them"""
    r = random.Random(seed)
    size = r.choice([2, 3, 3, 4])
    term = r.random() < 0.6
    outs = [{'name': 's0', 'type': 'str', 'size': size, 'term': term, 'default': None},
            {'name': 'n0', 'type': 'int', 'signed': None, 'width': None, 'default': 0}]
    A = [97, 98, 99, 59]
    delim = 59
    n0 = {'k': 'var', 'name': 'n0'}

    def cls(bs):
        return {'k': 're', 'r': {'k': 'set', 'inv': False, 'items': [['ch', b] for b in bs]}, 'bin': False}

    def lasteq(b):
        return {'k': 'bin', 'op': '==', 'l': {'k': 'last'}, 'r': {'k': 'chr', 'c': b}}
    brk = [{'t': 'break', 'loop': None}]
    k = r.random()
    if k < 0.45:
        cond = [{'t': 'if', 'br': [{'c': lasteq(delim), 'b': brk}], 'els': None}]
    elif k < 0.7:
        # nested: break only when a counter allows it, otherwise count
        cond = [{'t': 'if', 'br': [{'c': lasteq(delim), 'b': [
            {'t': 'if', 'br': [{'c': {'k': 'bin', 'op': '>=', 'l': n0, 'r': {'k': 'num', 'v': r.choice([0, 1, 2])}}, 'b': brk}], 'els': None},
            {'t': 'set', 'var': 'n0', 'e': {'k': 'bin', 'op': '+', 'l': n0, 'r': {'k': 'num', 'v': 1}}}]}], 'els': None}]
    else:
        cond = [{'t': 'if', 'br': [{'c': {'k': 'bin', 'op': '!=', 'l': {'k': 'last'}, 'r': {'k': 'chr', 'c': delim}},
                                    'b': [{'t': 'set', 'var': 'n0', 'e': {'k': 'bin', 'op': '+', 'l': n0, 'r': {'k': 'num', 'v': 1}}}]}], 'els': brk}]
    body = [{'t': 'match', 'm': cls(A)}] + cond + [{'t': 'appendc', 'var': 's0', 'e': {'k': 'last'}}]
    after = []
    for _ in range(r.randint(1, 3)):
        after.append(r.choice([
            {'t': 'appendc', 'var': 's0', 'e': {'k': 'num', 'v': r.choice([36, 48])}},
            {'t': 'appendc', 'var': 's0', 'e': {'k': 'last'}},
            {'t': 'hook', 'n': 'h0'},
            {'t': 'set', 'var': 'n0', 'e': {'k': 'len', 'name': 's0'}}]))
    if not any(a['t'] == 'appendc' for a in after):
        after.insert(r.randrange(len(after) + 1), {'t': 'appendc', 'var': 's0', 'e': {'k': 'num', 'v': 36}})
    tail = [{'t': 'match', 'm': {'k': 'str', 'bytes': r.choice([[101, 110, 100], [120], [97, 98]])}}]
    handler = r.choice([
        [{'t': 'finish', 'code': 'F0'}],
        [{'t': 'set', 'var': 'n0', 'e': {'k': 'len', 'name': 's0'}}, {'t': 'delete', 'var': 's0'}, {'t': 'wait', 'm': {'k': 'str', 'bytes': [33]}}],
        [{'t': 'hook', 'n': 'h1'}, {'t': 'match', 'm': {'k': 'str', 'bytes': [120]}}]])
    core = [{'t': 'try', 'b': [{'t': 'loop', 'name': None, 'b': body}] + after + tail, 'handles': ['outofspace'], 'h': handler}]
    if r.random() < 0.4:
        core = [{'t': 'loop', 'name': None, 'b': core + [{'t': 'hook', 'n': 'h1'}]}]
    p = {'outs': outs, 'hooks': ['h0', 'h1'], 'fcodes': ['F0'], 'ycodes': [], 'macros': [], 'body': core, 'args': []}
    return p, spell_program(p)


def gen_protocol_program(seed):
    """result-code protocol family (C10/C01): a lexer-style loop whose case clauses end in *runs* of result-producing
    actions - several yields in a row, a yield followed by finish, actions between and after yields - so that every code
    must be reported exactly once, in order, and the parser finishes exactly when the source says so"""
    r = random.Random(seed)
    A = list(b'ab.(x')
    outs = [{'name': 'n', 'type': 'int', 'signed': None, 'width': None, 'default': 0}]
    ycodes = ['Y0', 'Y1', 'Y2']
    fcodes = ['F0', 'F1']
    inc = {'t': 'set', 'var': 'n', 'e': {'k': 'bin', 'op': '+', 'l': {'k': 'var', 'name': 'n'}, 'r': {'k': 'num', 'v': 1}}}

    def run():
        k = r.random()
        acts = []
        if k < 0.3:
            acts = [{'t': 'yield', 'code': r.choice(ycodes)}, {'t': 'yield', 'code': r.choice(ycodes)}]
        elif k < 0.55:
            acts = [{'t': 'yield', 'code': r.choice(ycodes)}, {'t': 'finish', 'code': r.choice(fcodes + [None])}]
        elif k < 0.75:
            acts = [inc, {'t': 'yield', 'code': r.choice(ycodes)}, {'t': 'hook', 'n': 'h'}]
        elif k < 0.9:
            acts = [{'t': 'hook', 'n': 'h'}, {'t': 'yield', 'code': r.choice(ycodes)}, inc, {'t': 'yield', 'code': r.choice(ycodes)}]
        else:
            acts = [{'t': 'finish', 'code': r.choice(fcodes)}]
        return acts
    firsts = r.sample(A, r.randint(2, 4))
    cl = []
    for f in firsts:
        pat = {'k': 'str', 'bytes': [f] + ([r.choice(A)] if r.random() < 0.3 else [])}
        body = run()
        if r.random() < 0.3:
            body = body + [{'t': 'match', 'm': {'k': 'str', 'bytes': [r.choice(A)]}}] + (run() if r.random() < 0.5 else [])
        cl.append({'ps': [pat], 'prio': 0, 'b': body})
    if r.random() < 0.6:
        anyb = {'t': 'match', 'm': {'k': 're', 'r': {'k': 'any'}, 'bin': False}}
        cl.append({'ps': ['else'], 'prio': 0, 'b': r.choice([[anyb], [{'t': 'yield', 'code': 'Y2'}, anyb], [anyb, {'t': 'hook', 'n': 'h'}], [anyb, {'t': 'yield', 'code': 'Y2'}, {'t': 'yield', 'code': 'Y0'}]])})
    body = [{'t': 'loop', 'name': None, 'b': [{'t': 'case', 'greedy': False, 'cl': cl}]}]
    if r.random() < 0.3:
        body = [{'t': 'match', 'm': {'k': 'str', 'bytes': [r.choice(b'pq')]}}] + run()[:2] + body
    if r.random() < 0.35:
        # tagged field: a tag byte dispatched by a case (one clause yields on the consuming transition), then a bounded
        # string filled from the input - with and without an out-of-space handler (where does the pointer stand on FAIL?)
        outs = outs + [{'name': 's', 'type': 'str', 'size': r.choice([3, 4]), 'term': r.random() < 0.6, 'default': None}]
        tags = r.sample(A, 2)
        tcl = [{'ps': [{'k': 'str', 'bytes': [tags[0]]}], 'prio': 0, 'b': [{'t': 'yield', 'code': r.choice(ycodes)}]},
               {'ps': [{'k': 'str', 'bytes': [tags[1]]}], 'prio': 0, 'b': r.choice([[inc], [{'t': 'hook', 'n': 'h'}, {'t': 'yield', 'code': r.choice(ycodes)}], []])}]
        fill = {'t': 'append', 'var': 's', 'm': {'k': 're', 'r': {'k': 'plus', 'c': {'k': 'set', 'inv': False, 'items': [['range', 113, 122]]}}, 'bin': False}}
        field = [{'t': 'case', 'greedy': False, 'cl': tcl}, fill, {'t': 'match', 'm': {'k': 'str', 'bytes': [59]}}]
        k = r.random()
        if k < 0.4:
            field = [{'t': 'try', 'b': field, 'handles': ['outofspace'],
                      'h': [inc, {'t': 'wait', 'm': {'k': 'str', 'bytes': [59]}}, {'t': 'delete', 'var': 's'}]}]
        body = [{'t': 'loop', 'name': None, 'b': field + [{'t': 'hook', 'n': 'h'}] + ([{'t': 'delete', 'var': 's'}] if r.random() < 0.5 else [])}]
    if r.random() < 0.2:
        # a parser that ends right after a yield (the yield may sit on the transition that consumes the last byte): DONE must
        # still be reported, with the pointer on the last byte read
        tail = r.choice([[{'t': 'yield', 'code': r.choice(ycodes)}], [inc, {'t': 'yield', 'code': r.choice(ycodes)}],
                         [{'t': 'yield', 'code': r.choice(ycodes)}, {'t': 'yield', 'code': r.choice(ycodes)}], [{'t': 'hook', 'n': 'h'}, {'t': 'yield', 'code': r.choice(ycodes)}, inc]])
        body = [{'t': 'match', 'm': {'k': 'str', 'bytes': [r.choice(A) for _ in range(r.randint(1, 3))]}}] + tail
        if r.random() < 0.4:
            body = [{'t': 'match', 'm': {'k': 'str', 'bytes': [r.choice(b'pq')]}}, {'t': 'yield', 'code': r.choice(ycodes)}] + body
    p = {'outs': outs, 'hooks': ['h'], 'fcodes': fcodes, 'ycodes': ycodes, 'macros': [], 'body': body, 'args': ['-fyield-support']}
    return p, spell_program(p)


def gen_range_program(seed):
    """byte-set family (C05/C06/C12): case clauses and sets built from runs of consecutive bytes of various lengths with
    gaps between them (short run before a long one, runs touching 0x00 / 0xff, single bytes), the shapes the range
    collapsing of the code generator rewrites into interval tests"""
    r = random.Random(seed)

    def runs():
        items, pos = [], r.choice([0, 1, 33, 48, 65, 97, 120, 200])
        for _ in range(r.randint(2, 5)):
            ln = r.choice([1, 1, 2, 3, 4, 5, 6, 9])
            if pos + ln > 256:
                break
            items.append(['ch', pos] if ln == 1 else ['range', pos, pos + ln - 1])
            pos += ln + r.choice([1, 1, 2, 5, 17])
        if r.random() < 0.3:
            items.append(['range', 250, 255])
        return items
    binary = True          # hex-pair spelling: every byte value can be written
    sets = [runs() for _ in range(r.randint(1, 3))]
    outs = [{'name': 'n', 'type': 'int', 'signed': None, 'width': None, 'default': 0}]
    cl = []
    used = set()
    for i, it in enumerate(sets):
        # clauses must be disjoint on their first byte
        bs = set()
        for x in it:
            bs.update(range(x[1], (x[2] if x[0] == 'range' else x[1]) + 1))
        if bs & used:
            continue
        used |= bs
        cl.append({'ps': [{'k': 're', 'r': {'k': 'set', 'inv': False, 'items': it}, 'bin': binary}], 'prio': 0,
                   'b': [{'t': 'set', 'var': 'n', 'e': {'k': 'num', 'v': i + 1}}, {'t': 'hook', 'n': 'h'}]})
    cl.append({'ps': ['else'], 'prio': 0, 'b': [{'t': 'match', 'm': {'k': 're', 'r': {'k': 'any'}, 'bin': False}}, {'t': 'set', 'var': 'n', 'e': {'k': 'num', 'v': 9}}]})
    inv = {'k': 're', 'r': {'k': 'set', 'inv': True, 'items': runs()}, 'bin': binary}
    body = [{'t': 'loop', 'name': None, 'b': [{'t': 'case', 'greedy': False, 'cl': cl}, {'t': 'match', 'm': inv}, {'t': 'hook', 'n': 'h'}]}]
    p = {'outs': outs, 'hooks': ['h'], 'fcodes': [], 'ycodes': [], 'macros': [], 'body': body, 'args': []}
    return p, spell_program(p)


def gen_foreach_program(seed):
    """foreach family (C01): structured foreach bodies - nested loops left by breaks, try/catch with mismatches, case, optional -
    with non-idempotent do-actions (counter, hook, accumulator): they run exactly once per consumed byte"""
    r = random.Random(seed)
    A = list(b'abc;x')
    outs = [{'name': 'n', 'type': 'int', 'signed': None, 'width': None, 'default': 0},
            {'name': 'acc', 'type': 'int', 'signed': None, 'width': None, 'default': 0}]
    inc = {'t': 'set', 'var': 'n', 'e': {'k': 'bin', 'op': '+', 'l': {'k': 'var', 'name': 'n'}, 'r': {'k': 'num', 'v': 1}}}
    accu = {'t': 'set', 'var': 'acc', 'e': {'k': 'bin', 'op': '+', 'l': {'k': 'bin', 'op': '*', 'l': {'k': 'var', 'name': 'acc'}, 'r': {'k': 'num', 'v': 3}}, 'r': {'k': 'last'}}}
    lit = lambda *bs: {'t': 'match', 'm': {'k': 'str', 'bytes': list(bs)}}

    def piece():
        k = r.randrange(6)
        if k == 0:
            x, y = r.sample(A, 2)
            return [{'t': 'loop', 'name': None, 'b': [{'t': 'match', 'm': {'k': 're', 'r': {'k': 'set', 'inv': False, 'items': [['ch', x], ['ch', y]]}, 'bin': False}},
                                                       {'t': 'if', 'br': [{'c': {'k': 'bin', 'op': '==', 'l': {'k': 'last'}, 'r': {'k': 'chr', 'c': y}}, 'b': [{'t': 'break', 'loop': None}]}], 'els': None}]}]
        if k == 1:
            x, y = r.sample(A, 2)
            return [{'t': 'try', 'b': [lit(x), lit(y)], 'handles': r.choice([None, ['nomatch']]), 'h': [lit(r.choice(A))] + ([{'t': 'hook', 'n': 'e'}] if r.random() < 0.5 else [])}]
        if k == 2:
            fs = r.sample(A, 3)
            return [{'t': 'case', 'greedy': False, 'cl': [{'ps': [{'k': 'str', 'bytes': [fs[0]]}], 'prio': 0, 'b': [{'t': 'hook', 'n': 'e'}]},
                                                           {'ps': [{'k': 'str', 'bytes': [fs[1], fs[2]]}], 'prio': 0, 'b': []},
                                                           {'ps': ['else'], 'prio': 0, 'b': [lit(r.choice(A))]}]}]
        if k == 3:
            return [{'t': 'opt', 'b': [lit(r.choice(A))]}, lit(r.choice(b'yz'))]
        if k == 4:
            # a loop of items separated by commas, left through a case
            return [{'t': 'loop', 'name': None, 'b': [lit(r.choice(A)), {'t': 'case', 'greedy': False, 'cl': [
                {'ps': [{'k': 'str', 'bytes': [44]}], 'prio': 0, 'b': []}, {'ps': [{'k': 'str', 'bytes': [46]}], 'prio': 0, 'b': [{'t': 'break', 'loop': None}]}]}]}]
        return [{'t': 'match', 'm': {'k': 're', 'r': {'k': 'plus', 'c': {'k': 'cc', 'n': 'd'}}, 'bin': False}}, lit(r.choice(A))]
    body = []
    for _ in range(r.randint(1, 2)):
        body += piece()
    acts = r.choice([[inc], [inc, {'t': 'hook', 'n': 'h'}], [accu], [{'t': 'hook', 'n': 'h'}, accu]])
    prog = [{'t': 'foreach', 'b': body, 'acts': acts}, {'t': 'hook', 'n': 'e'}, lit(33)]
    if r.random() < 0.3:
        prog = [lit(r.choice(b'pq'))] + prog
    p = _mk(outs, ['h', 'e'], [], [], prog)
    return p, spell_program(p)


def gen_actionloop_program(seed):
    """C05: loops whose body starts and ends with runs of actions (1..6 each, non-idempotent, hooks in between), so that the
    back edge and the first consuming transition both carry action lists - what the fall-through short-circuit merges, subject
    to its thresholds (number of equivalent transitions, action penalty)."""
    r = random.Random(seed)
    outs = [{'name': 'n', 'type': 'int', 'signed': None, 'width': None, 'default': r.choice([None, 3])},
            {'name': 'm', 'type': 'int', 'signed': None, 'width': None, 'default': r.choice([None, 5])}]
    hooks = ['ha', 'hb', 'hc', 'hd']

    def acts(k):
        out = []
        for _ in range(k):
            q = r.random()
            if q < 0.4:
                out.append({'t': 'hook', 'n': r.choice(hooks)})
            elif q < 0.7:
                out.append({'t': 'set', 'var': 'n', 'e': {'k': 'bin', 'op': '+', 'l': {'k': 'var', 'name': 'n'}, 'r': {'k': 'num', 'v': r.randint(1, 3)}}})
            else:
                out.append({'t': 'set', 'var': 'm', 'e': {'k': 'bin', 'op': '+', 'l': {'k': 'bin', 'op': '*', 'l': {'k': 'var', 'name': 'm'}, 'r': {'k': 'num', 'v': 2}},
                                                          'r': {'k': 'var', 'name': 'n'}}})
        return out
    lit = lambda: {'t': 'match', 'm': {'k': 'str', 'bytes': [r.choice(b'ab') for _ in range(r.randint(1, 2))]}}
    body = acts(r.randint(1, 6)) + [lit()]
    if r.random() < 0.5:
        body += acts(r.randint(1, 3)) + [lit()]
    body += acts(r.randint(1, 6))
    if r.random() < 0.6:
        body.append({'t': 'if', 'br': [{'c': {'k': 'bin', 'op': '>=', 'l': {'k': 'var', 'name': 'n'}, 'r': {'k': 'num', 'v': r.choice([9, 14, 40])}}, 'b': [{'t': 'break', 'loop': None}]}], 'els': None})
    prog = [{'t': 'loop', 'name': None, 'b': body}] + acts(r.randint(0, 2)) + [{'t': 'match', 'm': {'k': 'str', 'bytes': [88]}}]
    if r.random() < 0.4:
        prog.insert(0, {'t': 'match', 'm': {'k': 'str', 'bytes': [120]}})
    p = _mk(outs, hooks, [], [], prog)
    return p, spell_program(p)


def gen_lifecycle_program(seed):
    """string life-cycle family (C03/C12): one input byte selects one operation on a string with a default value and on one
    without - delete, constant assignment, character append, append from the input, reads of length and indexed bytes - in a loop,
    so that every order of operations (delete then assign, delete then append, assign twice, fill up then delete ...) is a short input"""
    r = random.Random(seed)
    size_s, size_t = r.choice([3, 4, 5]), r.choice([2, 3])
    outs = [{'name': 's', 'type': 'str', 'size': size_s, 'term': r.random() < 0.6, 'default': [r.choice(b'AB') for _ in range(r.randint(1, 2))]},
            {'name': 't', 'type': 'str', 'size': size_t, 'term': r.random() < 0.5, 'default': None},
            {'name': 'n', 'type': 'int', 'signed': None, 'width': None, 'default': 0}]
    ops = {
        'd': [{'t': 'delete', 'var': 's'}], 'e': [{'t': 'delete', 'var': 't'}],
        'a': [{'t': 'setstr', 'var': 's', 'bytes': [r.choice(b'xyz') for _ in range(r.randint(0, 2))]}],
        'b': [{'t': 'setstr', 'var': 't', 'bytes': [r.choice(b'xyz')]}],
        'p': [{'t': 'appendc', 'var': 's', 'e': {'k': 'last'}}], 'q': [{'t': 'appendc', 'var': 't', 'e': {'k': 'num', 'v': 81}}],
        'l': [{'t': 'set', 'var': 'n', 'e': {'k': 'bin', 'op': '+', 'l': {'k': 'len', 'name': 's'}, 'r': {'k': 'bin', 'op': '*', 'l': {'k': 'len', 'name': 't'}, 'r': {'k': 'num', 'v': 10}}}}],
        'i': [{'t': 'set', 'var': 'n', 'e': {'k': 'bin', 'op': '+', 'l': {'k': 'idx', 'name': 's', 'i': {'k': 'num', 'v': 0}}, 'r': {'k': 'idx', 'name': 't', 'i': {'k': 'num', 'v': 1}}}}],
        'h': [{'t': 'hook', 'n': 'h'}],
        'D': [{'t': 'delete', 'var': 's'}, {'t': 'setstr', 'var': 's', 'bytes': [119]}],
    }
    keys = r.sample(sorted(ops), r.randint(5, 8))
    for must in ('d', 'a'):
        if must not in keys:
            keys.append(must)
    cl = [{'ps': [{'k': 'str', 'bytes': [ord(k)]}], 'prio': 0, 'b': ops[k]} for k in keys]
    cl.append({'ps': [{'k': 'str', 'bytes': [109]}], 'prio': 0, 'b': [{'t': 'append', 'var': r.choice(['s', 't']), 'm': {'k': 're', 'r': {'k': 'plus', 'c': {'k': 'cc', 'n': 'd'}}, 'bin': False}}, {'t': 'match', 'm': {'k': 'str', 'bytes': [59]}}]})
    cl.append({'ps': [{'k': 'str', 'bytes': [46]}], 'prio': 0, 'b': [{'t': 'break', 'loop': None}]})
    inner = [{'t': 'try', 'b': [{'t': 'case', 'greedy': False, 'cl': cl}], 'handles': ['outofspace'],
              'h': [{'t': 'match', 'm': {'k': 're', 'r': {'k': 'any'}, 'bin': False}}, {'t': 'delete', 'var': r.choice(['s', 't'])}, {'t': 'hook', 'n': 'h'}]}]
    body = [{'t': 'loop', 'name': None, 'b': inner}, {'t': 'hook', 'n': 'h'}]
    p = _mk(outs, ['h'], [], [], body)
    return p, spell_program(p)


def gen_optcase_program(seed):
    """rejoining-alternatives family (C05): inside a loop, alternatives that come back together with identical pending actions -
    a one-byte optional spelled `case { "z" -> {} else -> {} }`, case arms with equal bodies, if/else with equal tails - the
    shapes in which optimisation passes may merge a consuming move with a non-consuming one"""
    r = random.Random(seed)
    A = list(b'qzxy')
    outs = [{'name': 'n', 'type': 'int', 'signed': None, 'width': None, 'default': 0}]
    inc = {'t': 'set', 'var': 'n', 'e': {'k': 'bin', 'op': '+', 'l': {'k': 'var', 'name': 'n'}, 'r': {'k': 'num', 'v': 1}}}
    lit = lambda b: {'k': 'str', 'bytes': [b]}
    q, z, x = r.sample(A, 3)
    plain = r.random() < 0.5          # both arms empty, one action after the case: the two ways out carry identical pending actions
    same = [] if plain else r.choice([[], [inc], [{'t': 'hook', 'n': 'h'}]])
    opt = {'t': 'case', 'greedy': False, 'cl': [{'ps': [lit(z)], 'prio': 0, 'b': list(same)}, {'ps': ['else'], 'prio': 0, 'b': list(same) if plain or r.random() < 0.7 else []}]}
    head = {'t': 'case', 'greedy': False, 'cl': [{'ps': [lit(q)], 'prio': 0, 'b': []}, {'ps': [lit(59)], 'prio': 0, 'b': [{'t': 'break', 'loop': None}]}]}
    body = [head, opt] + (r.choice([[inc], [{'t': 'hook', 'n': 'h'}]]) if plain else r.choice([[inc], [inc, {'t': 'hook', 'n': 'h'}], [{'t': 'hook', 'n': 'h'}]]))
    if not plain and r.random() < 0.3:
        body = [head, {'t': 'case', 'greedy': False, 'cl': [{'ps': [lit(z)], 'prio': 0, 'b': [inc]}, {'ps': [lit(x)], 'prio': 0, 'b': [inc]}, {'ps': ['else'], 'prio': 0, 'b': [inc]}]}, {'t': 'hook', 'n': 'h'}]
    prog = [{'t': 'loop', 'name': None, 'b': body}, {'t': 'match', 'm': lit(33)}]
    p = _mk(outs, ['h'], [], [], prog)
    return p, spell_program(p)


def gen_boundary_program(seed):
    """capacity-boundary programs (C03): string sizes at the edges of the counter types, filled by a loop"""
    r = random.Random(seed)
    size = r.choice([1, 2, 3, 255, 256, 257])
    term = r.random() < 0.5
    if size == 1 and term:
        size = 2
    outs = [{'name': 's0', 'type': 'str', 'size': size, 'term': term, 'default': None},
            {'name': 'n0', 'type': 'int', 'signed': None, 'width': None, 'default': 0}]
    fill = {'t': 'append', 'var': 's0', 'm': {'k': 're', 'r': {'k': 'plus', 'c': {'k': 'set', 'inv': False, 'items': [['ch', 97], ['ch', 98]]}}, 'bin': False}}
    tail = r.choice([
        [{'t': 'appendc', 'var': 's0', 'e': {'k': 'num', 'v': 99}}, {'t': 'match', 'm': {'k': 'str', 'bytes': [120]}}],
        [{'t': 'set', 'var': 'n0', 'e': {'k': 'idx', 'name': 's0', 'i': {'k': 'bin', 'op': '-', 'l': {'k': 'len', 'name': 's0'}, 'r': {'k': 'num', 'v': 1}}}}, {'t': 'match', 'm': {'k': 'str', 'bytes': [120]}}],
        [{'t': 'match', 'm': {'k': 'str', 'bytes': [120]}}]])
    body = [{'t': 'loop', 'name': None, 'b': [
        {'t': 'try', 'b': [fill, {'t': 'match', 'm': {'k': 'str', 'bytes': [59]}}] + tail, 'handles': ['outofspace'],
         'h': [{'t': 'set', 'var': 'n0', 'e': {'k': 'len', 'name': 's0'}}, {'t': 'wait', 'm': {'k': 'str', 'bytes': [33]}}, {'t': 'delete', 'var': 's0'}]}]}]
    p = {'outs': outs, 'hooks': [], 'fcodes': [], 'ycodes': [], 'macros': [], 'body': body, 'args': []}
    return p, spell_program(p)


def generate(seed, features=None, args=(), **kw):
    g = Gen(seed, features, **kw)
    p = g.program(args)
    return p, spell_program(p)


if __name__ == '__main__':
    import sys
    p, src = generate(int(sys.argv[1]) if len(sys.argv) > 1 else 1)
    print(src)


# ---------------------------------------------------------------------------
# targeted families
def _mk(outs=(), hooks=(), fcodes=(), ycodes=(), body=()):
    return {'outs': list(outs), 'hooks': list(hooks), 'fcodes': list(fcodes), 'ycodes': list(ycodes), 'macros': [], 'body': list(body), 'args': []}


def gen_case_program(seed, yield_mode=False):
    """C08: a case / greedy case whose clauses carry distinct markers (enum assignment + hook, or a yield code)"""
    r = random.Random(seed)
    A = list(b'abcxy')
    n = r.randint(2, 5)
    greedy = r.random() < 0.45
    g = Gen(seed, {'regex', 'stri'}, alphabet=bytes(A))
    g.decls()
    vals = ['K%d' % i for i in range(n + 1)]
    outs = [{'name': 'which', 'type': 'enum', 'values': vals + ['KNONE'], 'default': None},
            {'name': 'cnt', 'type': 'int', 'signed': None, 'width': None, 'default': 0}]
    hooks = ['c%d' % i for i in range(n + 1)]
    ycodes = ['Y%d' % i for i in range(n + 1)] if yield_mode else []
    firsts = r.sample(A, min(n, len(A)))
    cl = []
    for i in range(n):
        ps = []
        for _ in range(1 if r.random() < 0.75 else 2):
            k = r.random()
            if greedy or k < 0.35:
                q = r.random()
                if q < 0.5:
                    ps.append({'k': 're', 'r': g.regex(1), 'bin': False})
                elif q < 0.8:
                    ps.append({'k': 'str', 'bytes': [r.choice(A) for _ in range(r.randint(1, 3))]})
                elif r.random() < 0.5:
                    ps.append({'k': 'stri', 'bytes': [r.choice(A) for _ in range(r.randint(1, 2))]})
                else:
                    # case folding boundaries: the bytes around the ASCII letters and Latin-1 "letters" (only A-Z / a-z fold)
                    ps.append({'k': 'stri', 'bytes': [r.choice([0x40, 0x41, 0x5a, 0x5b, 0x5f, 0x60, 0x61, 0x7a, 0x7b, 0xe9, 0xc9, 0xdf, 0xff, 0xaa, 0xb5, 0xd7, 0xf7])
                                                     for _ in range(r.randint(1, 2))]})
            else:
                ps.append({'k': 'str', 'bytes': [firsts[i % len(firsts)]] + [r.choice(A) for _ in range(r.randint(0, 2))]})
        marker = [{'t': 'yield', 'code': 'Y%d' % i}] if yield_mode else \
                 [{'t': 'set', 'var': 'which', 'e': {'k': 'enum', 'name': 'K%d' % i}}, {'t': 'hook', 'n': 'c%d' % i}]
        body = list(marker)
        k = r.random()
        if k < 0.3:
            body = []        # empty clause
        elif k < 0.55:
            body.append({'t': 'match', 'm': {'k': 'str', 'bytes': [r.choice(A)]}})
        elif k < 0.65:
            body = [{'t': 'match', 'm': {'k': 'str', 'bytes': [r.choice(A)]}}] + marker
        if greedy and all(x['t'] not in ('match',) for x in body):
            # known finding greedy-action-only-early: action-only (or empty) clause bodies of a greedy case - and the actions
            # that follow the case - fire on entering the finishing state; keep random exploration off that class (its
            # pinned witness is re-run by the check)
            body.append({'t': 'match', 'm': {'k': 'str', 'bytes': [r.choice(A)]}})
        cl.append({'ps': ps, 'prio': r.choice([0, 0, 1, 2]) if greedy else 0, 'b': body})
    if r.random() < 0.6:
        marker = [{'t': 'yield', 'code': 'Y%d' % n}] if yield_mode else \
                 [{'t': 'set', 'var': 'which', 'e': {'k': 'enum', 'name': 'K%d' % n}}, {'t': 'hook', 'n': 'c%d' % n}]
        eb = r.choice([[], marker, marker + [{'t': 'match', 'm': {'k': 'str', 'bytes': [r.choice(A)]}}], [{'t': 'match', 'm': {'k': 're', 'r': {'k': 'any'}, 'bin': False}}] + marker])
        if r.random() < 0.25 and cl:
            cl[-1]['ps'].append('else')
        else:
            cl.append({'ps': ['else'], 'prio': 0, 'b': eb})
    case = {'t': 'case', 'greedy': greedy, 'cl': cl}
    body = []
    if r.random() < 0.4:
        body.append({'t': 'match', 'm': {'k': 'str', 'bytes': [r.choice(b'pq')]}})
    if r.random() < 0.35:
        inner = [case, {'t': 'set', 'var': 'cnt', 'e': {'k': 'bin', 'op': '+', 'l': {'k': 'var', 'name': 'cnt'}, 'r': {'k': 'num', 'v': 1}}},
                 {'t': 'if', 'br': [{'c': {'k': 'bin', 'op': '>=', 'l': {'k': 'var', 'name': 'cnt'}, 'r': {'k': 'num', 'v': 2}}, 'b': [{'t': 'break', 'loop': None}]}], 'els': None}]
        if r.random() < 0.5:
            inner = [{'t': 'try', 'b': inner[:1], 'handles': ['nomatch'], 'h': [{'t': 'set', 'var': 'which', 'e': {'k': 'enum', 'name': 'KNONE'}}, {'t': 'wait', 'm': {'k': 'str', 'bytes': [0x3b]}}]}] + inner[1:]
        body.append({'t': 'loop', 'name': None, 'b': inner})
    else:
        body.append(case)
    body.append({'t': 'match', 'm': {'k': 'str', 'bytes': [0x21]}})
    p = _mk(outs, hooks, [], ycodes, body)
    return p, spell_program(p)


def gen_wait_program(seed):
    """C16: wait patterns (literal, case-insensitive, regex with loops, concatenation), bare and inside try blocks"""
    r = random.Random(seed)
    A = list(b'abcd')
    g = Gen(seed, {'regex', 'stri'}, alphabet=bytes(A))
    g.decls()
    k = r.random()
    if k < 0.35:
        pat = {'k': 'str', 'bytes': [r.choice(A) for _ in range(r.randint(1, 4))]}
    elif k < 0.5:
        pat = {'k': 'stri', 'bytes': [r.choice(A) for _ in range(r.randint(1, 3))]}
    elif k < 0.85:
        rx = g.regex(0)
        for _ in range(5):
            if not regex_nullable(rx):
                break
            rx = g.regex(0)
        pat = {'k': 're', 'r': rx, 'bin': False} if not regex_nullable(rx) else {'k': 'str', 'bytes': [97, 98]}
    elif k < 0.93:
        pat = {'k': 'cat', 'ms': [{'k': 'str', 'bytes': [r.choice(A)]}, {'k': 'str', 'bytes': [r.choice(A), r.choice(A)]}]}
    else:
        # restart-sensitive regex: an inverted set / wildcard / \D in the middle that excludes a byte which can start the
        # pattern again (wait /a[^a]b/ on "aaxb" must re-examine the second a)
        x, y = r.choice(A), r.choice(A)
        mid = r.choice([{'k': 'set', 'inv': True, 'items': [['ch', x]]}, {'k': 'set', 'inv': True, 'items': [['ch', x], ['ch', r.choice(A)]]},
                        {'k': 'any'}, {'k': 'cc', 'n': r.choice(['D', 'W', 'S'])}])
        seq = [{'k': 'ch', 'c': x}] + ([{'k': 'ch', 'c': r.choice(A)}] if r.random() < 0.3 else []) + [mid, {'k': 'ch', 'c': y}]
        pat = {'k': 're', 'r': {'k': 'seq', 'c': seq}, 'bin': False}
    outs = [{'name': 'n', 'type': 'int', 'signed': None, 'width': None, 'default': 0}, {'name': 's', 'type': 'str', 'size': 4, 'term': True, 'default': None}]
    hooks = ['got', 'err']
    after = [{'t': 'hook', 'n': 'got'}, {'t': 'match', 'm': {'k': 'str', 'bytes': [r.choice(b'xy')]}}]
    shape = r.random()
    if shape < 0.3:
        body = [{'t': 'wait', 'm': pat}] + after
    elif shape < 0.65:
        body = [{'t': 'try', 'b': [{'t': 'match', 'm': {'k': 'str', 'bytes': [r.choice(b'xy')]}}, {'t': 'wait', 'm': pat}] + after,
                 'handles': r.choice([None, ['nomatch']]), 'h': [{'t': 'hook', 'n': 'err'}, {'t': 'match', 'm': {'k': 'str', 'bytes': [0x3b]}}]}]
    elif shape < 0.85:
        body = [{'t': 'loop', 'name': None, 'b': [{'t': 'wait', 'm': pat}, {'t': 'set', 'var': 'n', 'e': {'k': 'bin', 'op': '+', 'l': {'k': 'var', 'name': 'n'}, 'r': {'k': 'num', 'v': 1}}},
                                                     {'t': 'hook', 'n': 'got'},
                                                     {'t': 'if', 'br': [{'c': {'k': 'bin', 'op': '>=', 'l': {'k': 'var', 'name': 'n'}, 'r': {'k': 'num', 'v': 2}}, 'b': [{'t': 'break', 'loop': None}]}], 'els': None}]},
                {'t': 'match', 'm': {'k': 'str', 'bytes': [r.choice(b'xy')]}}]
    else:
        body = [{'t': 'try', 'b': [{'t': 'append', 'var': 's', 'm': {'k': 're', 'r': {'k': 'plus', 'c': {'k': 'set', 'inv': False, 'items': [['ch', 120], ['ch', 121]]}}, 'bin': False}},
                                   {'t': 'match', 'm': {'k': 'str', 'bytes': [0x3a]}}],
                 'handles': None, 'h': [{'t': 'hook', 'n': 'err'}, {'t': 'foreach', 'b': [{'t': 'wait', 'm': pat}], 'acts': [{'t': 'set', 'var': 'n', 'e': {'k': 'bin', 'op': '+', 'l': {'k': 'var', 'name': 'n'}, 'r': {'k': 'num', 'v': 1}}}]}] + after}]
    p = _mk(outs, hooks, [], [], body)
    return p, spell_program(p)


def gen_end_program(seed):
    """C17: `end` in match, case and wait positions, in handlers, followed by actions and finish codes"""
    r = random.Random(seed)
    A = list(b'abc')
    outs = [{'name': 'seen', 'type': 'int', 'signed': None, 'width': None, 'default': 0}]
    hooks = ['h']
    fcodes = ['EARLY', 'LATE']
    END_ = {'k': 'end'}

    def lit(n=None):
        return {'t': 'match', 'm': {'k': 'str', 'bytes': [r.choice(A) for _ in range(n or r.randint(1, 2))]}}
    mark = lambda v: {'t': 'set', 'var': 'seen', 'e': {'k': 'num', 'v': v}}
    shape = r.randrange(16)
    inv = lambda bs: {'k': 're', 'r': {'k': 'set', 'inv': True, 'items': [['ch', b] for b in bs]}, 'bin': False}
    if shape >= 14:
        # finish statements reached by end-of-input: an `end` arm that finishes with a code, a plain finish arm, a handler that finishes
        arms = [{'ps': [END_], 'prio': 0, 'b': [mark(2), {'t': 'finish', 'code': r.choice(['EARLY', ''])}]},
                {'ps': [{'k': 'str', 'bytes': [113]}], 'prio': 0, 'b': [{'t': 'finish', 'code': r.choice(['', 'LATE'])}]}]
        inner = [lit(), {'t': 'case', 'greedy': False, 'cl': arms}]
        body = [{'t': 'try', 'b': inner, 'handles': ['nomatch'], 'h': [mark(5), {'t': 'finish', 'code': 'LATE'}]}] if shape == 14 else inner
    elif shape >= 11:
        # the program may end before an optional trailer that starts with a wait: end() right after the mandatory part finds an
        # accepting state whose end-of-input move is the wait's consuming skip transition
        x = r.choice(A)
        pat = r.choice([{'k': 'str', 'bytes': [x, r.choice(A)]}, {'k': 're', 'r': {'k': 'seq', 'c': [{'k': 'ch', 'c': x}, {'k': 'any'}, {'k': 'ch', 'c': r.choice(A)}]}, 'bin': False},
                        {'k': 'str', 'bytes': [x]}])
        w = {'t': 'wait', 'm': pat}
        inner = [w] if shape == 11 else ([{'t': 'foreach', 'b': [w], 'acts': [{'t': 'hook', 'n': 'h'}]}] if shape == 12 else [w, mark(6), lit(1)])
        body = [lit(), {'t': 'opt', 'b': inner}]
        p = _mk(outs, hooks, fcodes, [], body)
        # whether an optional whose first statement is a wait is entered by any byte (nmfu) or only by one that starts the pattern
        # is not settled by the reference: these programs are bound at the C level only (machine vs emitted _end / _feed)
        p['c_only'] = True
        return p, spell_program(p)
    elif shape == 8:
        # a case whose decider has an inverted-set arm and literal arms covering (some of) the excluded bytes: end-of-input in
        # the decider state matches no data pattern
        ex = r.sample(A, 2)
        cl = [{'ps': [inv(ex)], 'prio': 0, 'b': [mark(1)]}, {'ps': [{'k': 'str', 'bytes': [ex[0]]}], 'prio': 0, 'b': [mark(2)]}]
        if r.random() < 0.7:
            cl.append({'ps': [{'k': 'str', 'bytes': [ex[1]]}], 'prio': 0, 'b': [mark(3)]})
        if r.random() < 0.5:
            cl.append({'ps': ['else'], 'prio': 0, 'b': [mark(4)]})
        body = [lit(1), {'t': 'case', 'greedy': False, 'cl': cl}, {'t': 'hook', 'n': 'h'}]
    elif shape == 9:
        # wildcard / inverted set in the middle of a pattern arm
        x = r.choice(A)
        rx = {'k': 're', 'r': {'k': 'seq', 'c': [{'k': 'ch', 'c': x}, r.choice([{'k': 'any'}, {'k': 'set', 'inv': True, 'items': [['ch', r.choice(A)]]}])]}, 'bin': False}
        cl = [{'ps': [rx], 'prio': 0, 'b': [mark(1)]}, {'ps': [{'k': 'str', 'bytes': [r.choice([b for b in A if b != x])]}], 'prio': 0, 'b': [mark(2)]}]
        if r.random() < 0.5:
            cl.append({'ps': ['else'], 'prio': 0, 'b': [mark(4)]})
        body = [{'t': 'case', 'greedy': r.random() < 0.3, 'cl': cl}, {'t': 'hook', 'n': 'h'}]
    elif shape == 10:
        # hooks and assignments using $last on the end path of a case (the value passed at end-of-input)
        body = [lit(1), {'t': 'case', 'greedy': False, 'cl': [{'ps': [END_], 'prio': 0, 'b': [{'t': 'hook', 'n': 'h'}, mark(2)]},
                                                                {'ps': [inv([r.choice(A)])], 'prio': 0, 'b': [mark(3), {'t': 'hook', 'n': 'h'}]}]}]
    elif shape == 0:
        body = [lit(), {'t': 'match', 'm': END_}]
    elif shape == 1:
        body = [lit(), {'t': 'match', 'm': END_}, mark(2), {'t': 'hook', 'n': 'h'}] + ([{'t': 'finish', 'code': 'LATE'}] if r.random() < 0.5 else [])
    elif shape == 2:
        body = [lit(), {'t': 'case', 'greedy': False, 'cl': [{'ps': [END_], 'prio': 0, 'b': [mark(2)] + ([{'t': 'finish', 'code': 'EARLY'}] if r.random() < 0.5 else [])},
                                                               {'ps': [{'k': 'str', 'bytes': [120]}], 'prio': 0, 'b': [mark(3), lit(1)]}] +
                        ([{'ps': ['else'], 'prio': 0, 'b': [mark(4)]}] if r.random() < 0.4 else [])}]
    elif shape == 3:
        body = [{'t': 'try', 'b': [lit(3)], 'handles': ['nomatch'],
                 'h': [{'t': 'case', 'greedy': False, 'cl': [{'ps': [END_], 'prio': 0, 'b': [mark(2)]}, {'ps': ['else'], 'prio': 0, 'b': [{'t': 'wait', 'm': {'k': 'str', 'bytes': [122]}}, mark(5)]}]}]}]
    elif shape == 4:
        body = [lit(), {'t': 'match', 'm': {'k': 're', 'r': {'k': 'star', 'c': {'k': 'set', 'inv': True, 'items': [['ch', 120], ['ch', 121]]}}, 'bin': False}},
                {'t': 'try', 'b': [{'t': 'match', 'm': {'k': 'str', 'bytes': [121]}}], 'handles': ['nomatch'],
                 'h': [{'t': 'case', 'greedy': False, 'cl': [{'ps': [END_], 'prio': 0, 'b': [mark(2)]}, {'ps': [{'k': 'str', 'bytes': [120]}], 'prio': 0, 'b': [mark(3)]}]}]}]
    elif shape == 5:
        body = [{'t': 'loop', 'name': None, 'b': [{'t': 'case', 'greedy': False, 'cl': [
            {'ps': [END_], 'prio': 0, 'b': [mark(9), {'t': 'break', 'loop': None}]},
            {'ps': [{'k': 're', 'r': {'k': 'set', 'inv': False, 'items': [['ch', 97], ['ch', 98]]}, 'bin': False}], 'prio': 0,
             'b': [{'t': 'set', 'var': 'seen', 'e': {'k': 'bin', 'op': '+', 'l': {'k': 'var', 'name': 'seen'}, 'r': {'k': 'num', 'v': 1}}}]}]}]}, {'t': 'hook', 'n': 'h'}]
    elif shape == 6:
        body = [lit(), {'t': 'wait', 'm': {'k': 'cat', 'ms': [{'k': 'str', 'bytes': [r.choice(A)]}, END_]}}, mark(2)]
    else:
        body = [lit(), {'t': 'opt', 'b': [lit(1)]}, {'t': 'match', 'm': END_}, mark(7)]
    p = _mk(outs, hooks, fcodes, [], body)
    return p, spell_program(p)


def gen_zp_program(seed):
    """C04 reject side: loops whose body may (or may not) be able to complete without consuming input.
    Returns (ast, source, uses_yield)."""
    r = random.Random(seed)
    A = list(b'ab;,')
    outs = [{'name': 'n', 'type': 'int', 'signed': None, 'width': None, 'default': 0}]
    hooks = ['h']
    inc = {'t': 'set', 'var': 'n', 'e': {'k': 'bin', 'op': '+', 'l': {'k': 'var', 'name': 'n'}, 'r': {'k': 'num', 'v': 1}}}
    lit = lambda b: {'t': 'match', 'm': {'k': 'str', 'bytes': [b]}}
    anyb = {'t': 'match', 'm': {'k': 're', 'r': {'k': 'any'}, 'bin': False}}
    safe = r.random() < 0.45
    shape = r.randrange(8)
    uses_yield = False
    if shape == 7:
        # several consecutive constructs that may each complete without consuming (tries with empty handlers, optionals,
        # nullable regexes) with different first bytes: the no-progress cycle passes through states with different alphabets
        def skippable(b1, b2):
            k = r.randrange(3)
            if k == 0:
                return {'t': 'try', 'b': [lit(b1), lit(b2)], 'handles': r.choice([None, ['nomatch']]), 'h': []}
            if k == 1:
                return {'t': 'opt', 'b': [lit(b1), lit(b2)]}
            return {'t': 'match', 'm': {'k': 're', 'r': {'k': 'opt', 'c': {'k': 'seq', 'c': [{'k': 'ch', 'c': b1}, {'k': 'ch', 'c': b2}]}}, 'bin': False}}
        b = [skippable(97, 98), skippable(59, 44)]
        if r.random() < 0.3:
            b.append(skippable(44, 97))
        if safe:
            b.append(lit(33))
        body = [{'t': 'loop', 'name': None, 'b': b}]
    elif shape == 6:
        # a case with an inverted-set clause: the else clause only ever receives the few excluded bytes that no other clause
        # takes, so a cycle through an empty else exists for those bytes only
        ex = r.sample(A, 3)
        eb = [] if not safe else [anyb]
        if r.random() < 0.4:
            eb = eb + [inc]
        body = [{'t': 'loop', 'name': None, 'b': [{'t': 'case', 'greedy': False, 'cl': [
            {'ps': [{'k': 're', 'r': {'k': 'set', 'inv': True, 'items': [['ch', b] for b in ex]}, 'bin': False}], 'prio': 0, 'b': [inc]},
            {'ps': [{'k': 'str', 'bytes': [ex[0]]}], 'prio': 0, 'b': [{'t': 'hook', 'n': 'h'}]},
            {'ps': [{'k': 'str', 'bytes': [ex[1]]}], 'prio': 0, 'b': [{'t': 'break', 'loop': None}]},
            {'ps': ['else'], 'prio': 0, 'b': eb}]}]}, lit(33)]
    elif shape == 0:
        x = r.choice(['yield', 'hook', 'empty', 'set'])
        eb = {'yield': [{'t': 'yield', 'code': 'U'}], 'hook': [{'t': 'hook', 'n': 'h'}], 'empty': [], 'set': [inc]}[x]
        uses_yield = x == 'yield'
        if safe:
            eb = [anyb] + eb
        body = [{'t': 'loop', 'name': None, 'b': [{'t': 'case', 'greedy': False, 'cl': [
            {'ps': [{'k': 'str', 'bytes': [97]}], 'prio': 0, 'b': [inc]}, {'ps': [{'k': 'str', 'bytes': [59]}], 'prio': 0, 'b': [{'t': 'break', 'loop': None}]},
            {'ps': ['else'], 'prio': 0, 'b': eb}]}]}, lit(33)]
    elif shape == 1:
        inner = [{'t': 'case', 'greedy': False, 'cl': [{'ps': [{'k': 'str', 'bytes': [97]}], 'prio': 0, 'b': []},
                                                        {'ps': ['else'], 'prio': 0, 'b': [{'t': 'break', 'loop': 'inner'}]}]}]
        if r.random() < 0.6:
            inner.append(inc)
        outer = [{'t': 'loop', 'name': 'inner', 'b': inner}]
        if safe:
            outer.append(lit(44))
        elif r.random() < 0.5:
            outer.append({'t': 'hook', 'n': 'h'})
        body = [{'t': 'loop', 'name': 'outer', 'b': outer}]
    elif shape == 2:
        b = [{'t': 'opt', 'b': [lit(97)] + ([inc] if r.random() < 0.5 else [])}]
        if safe:
            b.append(lit(44))
        body = [{'t': 'loop', 'name': None, 'b': b + [{'t': 'if', 'br': [{'c': {'k': 'bin', 'op': '>', 'l': {'k': 'var', 'name': 'n'}, 'r': {'k': 'num', 'v': 2}}, 'b': [{'t': 'break', 'loop': None}]}], 'els': None}]}, lit(33)]
    elif shape == 3:
        b = [{'t': 'match', 'm': {'k': 're', 'r': {'k': r.choice(['star', 'opt']), 'c': {'k': 'ch', 'c': 97}}, 'bin': False}}]
        if safe:
            b.append(lit(44))
        body = [{'t': 'loop', 'name': None, 'b': b}]
    elif shape == 4:
        h = [] if not safe else [anyb]
        if r.random() < 0.5:
            h = h + [{'t': 'hook', 'n': 'h'}]
        body = [{'t': 'loop', 'name': None, 'b': [{'t': 'try', 'b': [lit(97), lit(98)], 'handles': r.choice([None, ['nomatch']]), 'h': h}]}]
    else:
        # if-guarded consumption: the loop consumes only when a condition holds
        b = [{'t': 'if', 'br': [{'c': {'k': 'bin', 'op': '<', 'l': {'k': 'var', 'name': 'n'}, 'r': {'k': 'num', 'v': 2}}, 'b': [lit(97), inc]}],
              'els': ([lit(98)] if safe else None)}]
        body = [{'t': 'loop', 'name': None, 'b': b}]
    p = _mk(outs, hooks, [], ['U'] if uses_yield else [], body)
    return p, spell_program(p), uses_yield


def gen_literal_program(seed):
    """C15: literals in every position - match, case-insensitive match, binary match, regex literal, string assignment,
    string default, char constant, integer literals (decimal / hex / binary, signed)."""
    r = random.Random(seed)

    def bs(n):
        out = []
        while len(out) < n:
            k = r.random()
            if n - len(out) >= 2 and k < 0.12:
                # escape followed by characters that could extend it: \0 before digits (no octal), \x41 before hex digits, \\ before n
                out += r.choice([[0, r.choice(b'01237')], [0x41, r.choice(b'0aF')], [92, r.choice(b'nx0t')], [10, 0x30]])
                continue
            if k < 0.35:
                out.append(r.randrange(256))
            elif k < 0.6:
                out.append(r.choice([0, 1, 9, 10, 13, 8, 34, 92, 0x7f, 0x80, 0xff, 0xe9, 0xc9, 0x41, 0x61, 0x5a, 0x7a, 0x40, 0x5b, 0x60, 0x7b]))
            else:
                out.append(r.choice(b'abcXYZ019 _-'))
        return out
    size = r.randint(3, 6)
    d1 = bs(r.randint(0, size - 1))
    outs = [{'name': 's', 'type': 'str', 'size': size, 'term': True, 'default': d1 if r.random() < 0.5 else None},
            {'name': 'u', 'type': 'str', 'size': size, 'term': False, 'default': bs(r.randint(0, size)) if r.random() < 0.4 else None},
            {'name': 'n', 'type': 'int', 'signed': None, 'width': None, 'default': r.choice([None, 0, -1, 255, 2147483647, -2147483647])},
            {'name': 'c', 'type': 'int', 'signed': False, 'width': 1, 'default': None}]
    hooks = ['h']
    body = []
    kinds = ['str', 'stri', 'bin', 're', 'setstr', 'chr', 'num', 'cat']
    for _ in range(r.randint(2, 4)):
        k = r.choice(kinds)
        if k in ('str', 'stri', 'bin'):
            body.append({'t': 'match', 'm': {'k': k, 'bytes': bs(r.randint(1, 3))}})
            if k == 'bin':
                body[-1]['m']['sp'] = r.randrange(4)
        elif k == 're':
            b = r.choice([x for x in range(0x20, 0x7f)])
            body.append({'t': 'match', 'm': {'k': 're', 'r': {'k': 'seq', 'c': [{'k': 'ch', 'c': b}, {'k': 'ch', 'c': r.choice(b'abc')}]}, 'bin': False}})
        elif k == 'cat':
            body.append({'t': 'match', 'm': {'k': 'cat', 'ms': [{'k': 'str', 'bytes': bs(1)}, {'k': 'bin', 'bytes': bs(2), 'sp': r.randrange(4)}]}})
        elif k == 'setstr':
            tgt = r.choice(['s', 'u'])
            cap = size - 1 if tgt == 's' else size
            body.append({'t': 'match', 'm': {'k': 'str', 'bytes': [r.choice(b'pq')]}})
            body.append({'t': 'setstr', 'var': tgt, 'bytes': bs(r.randint(0, cap))})
            body.append({'t': 'hook', 'n': 'h'})
        elif k == 'chr':
            ch = r.choice([x for x in range(0x20, 0x7f) if x != 0x27 and x != 0x5c] + [10, 13, 9, 8, 0x27])
            body.append({'t': 'match', 'm': {'k': 'str', 'bytes': [r.choice(b'pq')]}})
            body.append({'t': 'set', 'var': 'c', 'e': {'k': 'chr', 'c': ch}})
            body.append({'t': 'hook', 'n': 'h'})
        else:
            v = r.choice([0, 1, 7, 255, 256, 65535, 2147483647, -1, -128, -2147483647, 0x1234, 0b1011])
            body.append({'t': 'match', 'm': {'k': 'str', 'bytes': [r.choice(b'pq')]}})
            body.append({'t': 'set', 'var': 'n', 'e': {'k': 'num', 'v': v, 'radix': r.choice([10, 16, 2])}})
            body.append({'t': 'hook', 'n': 'h'})
    if body[0]['t'] != 'match':
        body.insert(0, {'t': 'match', 'm': {'k': 'str', 'bytes': [120]}})
    p = _mk(outs, hooks, [], [], body)
    return p, spell_program(p)


def gen_expr_program(seed, wide=False, expr=None):
    """C14: one-statement uses of a random well-typed expression tree in assignment, character append, if-condition and
    conditional action positions; operands are loaded from input bytes so that the explorers vary them."""
    r = random.Random(seed)
    widths = [(1, True), (1, False), (2, True), (2, False), (4, True)] + ([(4, False), (8, True), (8, False)] if wide else [])
    vars_ = []
    for i in range(3):
        w, sg = r.choice(widths)
        vars_.append({'name': 'v%d' % i, 'type': 'int', 'signed': sg, 'width': w, 'default': r.choice([None, 0, 1, 2, 7, 100, 127, 128, 255, 256, 32767, 65535, -1, -128])})
    for v in vars_:
        if v['default'] is not None:
            lo, hi = (-(1 << (8 * v['width'] - 1)), (1 << (8 * v['width'] - 1)) - 1) if v['signed'] else (0, (1 << (8 * v['width'])) - 1)
            if not (lo <= v['default'] <= hi):
                v['default'] = 1
    tw, tsg = r.choice(widths)
    outs = vars_ + [{'name': 'res', 'type': 'int', 'signed': tsg, 'width': tw, 'default': 0},
                    {'name': 'flag', 'type': 'int', 'signed': None, 'width': None, 'default': 0},
                    {'name': 'b', 'type': 'bool', 'default': r.choice([0, 1])},
                    {'name': 's', 'type': 'str', 'size': 5, 'term': r.random() < 0.5, 'default': [r.choice([65, 200, 0x7f, 0x80, 255, 1]) for _ in range(r.randint(0, 4))]}]
    names = [v['name'] for v in vars_]

    def atom(allow_last=True):
        k = r.random()
        if k < 0.3:
            return {'k': 'var', 'name': r.choice(names)}
        if k < 0.5:
            if wide and r.random() < 0.3:
                return {'k': 'num', 'v': r.choice([2147483647, 2147483648, 4294967295, 4294967296, 3000000000, 1000000000000, 65537, 16777216])}
            return {'k': 'num', 'v': r.choice([0, 1, 2, 3, 5, 7, 8, 10, 31, 32, 100, 127, 128, 255, 256, 1000, 32767, 65536])}
        if k < 0.6:
            return {'k': 'chr', 'c': r.choice(list(b'a0Z ~!') + [8, 9, 10, 13, 39, 92])}
        if k < 0.7 and allow_last:
            return {'k': 'last'}
        if k < 0.8:
            return {'k': 'len', 'name': 's'}
        if k < 0.92:
            return {'k': 'idx', 'name': 's', 'i': r.choice([{'k': 'num', 'v': r.randint(0, 5)}, {'k': 'bin', 'op': '-', 'l': {'k': 'len', 'name': 's'}, 'r': {'k': 'num', 'v': 1}},
                                                             {'k': 'bin', 'op': '&', 'l': {'k': 'var', 'name': r.choice(names)}, 'r': {'k': 'num', 'v': 3}}])}
        return {'k': 'neg', 'e': {'k': 'var', 'name': r.choice(names)}}

    def arith(d):
        if d == 0 or r.random() < 0.25:
            return atom()
        op = r.choice(['+', '-', '*', '/', '%', '&', '|', '^', '<<', '>>', '+', '-', '*'])
        l = arith(d - 1)
        if op in ('/', '%'):
            rr = r.choice([{'k': 'num', 'v': r.choice([1, 2, 3, 7, 10, 16])}, arith(d - 1)])
        elif op in ('<<', '>>'):
            rr = r.choice([{'k': 'num', 'v': r.randint(0, 31 if wide else 7)},     # (a constant count >= the operand width is the user's -Wshift-count-overflow)
                            {'k': 'bin', 'op': '&', 'l': atom(), 'r': {'k': 'num', 'v': 63 if wide else 7}}])
        else:
            rr = arith(d - 1)
        return {'k': 'bin', 'op': op, 'l': l, 'r': rr}

    def cond(d):
        k = r.random()
        if d > 0 and k < 0.35:
            return {'k': 'bin', 'op': r.choice(['&&', '||']), 'l': cond(d - 1), 'r': cond(d - 1)}
        if d > 0 and k < 0.45:
            return {'k': 'not', 'e': cond(d - 1)}
        if k < 0.5:
            # logical not of an *integer* operand (true iff the operand is zero, whatever its value)
            return {'k': 'not', 'e': r.choice([{'k': 'var', 'name': r.choice(names)}, {'k': 'len', 'name': 's'},
                                                {'k': 'bin', 'op': '&', 'l': {'k': 'var', 'name': r.choice(names)}, 'r': {'k': 'num', 'v': r.choice([6, 1, 255])}},
                                                {'k': 'idx', 'name': 's', 'i': {'k': 'num', 'v': 0}},
                                                {'k': 'bin', 'op': '-', 'l': {'k': 'var', 'name': r.choice(names)}, 'r': {'k': 'num', 'v': r.choice([2, 7])}}])}
        if k < 0.53:
            return {'k': 'var', 'name': 'b'}
        if k < 0.75:
            # boundary-friendly comparison (operands that are easily equal), often negated
            c = {'k': 'bin', 'op': r.choice(['==', '!=', '<', '>', '<=', '>=']), 'l': {'k': 'var', 'name': r.choice(names)},
                 'r': r.choice([{'k': 'num', 'v': r.choice([0, 1, 2, 3, 7, 100])}, {'k': 'var', 'name': r.choice(names)}, {'k': 'len', 'name': 's'}])}
            return {'k': 'not', 'e': c} if r.random() < 0.5 else c
        return {'k': 'bin', 'op': r.choice(['==', '!=', '<', '>', '<=', '>=']), 'l': arith(1), 'r': arith(1)}

    load = []
    for v in vars_[:2]:
        load += [{'t': 'match', 'm': {'k': 're', 'r': {'k': 'any'}, 'bin': False}},
                 {'t': 'set', 'var': v['name'], 'e': r.choice([{'k': 'last'}, {'k': 'bin', 'op': '-', 'l': {'k': 'last'}, 'r': {'k': 'num', 'v': 128}},
                                                               {'k': 'bin', 'op': '*', 'l': {'k': 'last'}, 'r': {'k': 'num', 'v': r.choice([2, 129, 257])}}])}]
    use = r.randrange(4)
    e = arith(r.randint(1, 3))
    if expr is not None:
        # a given expression (constant tables of C14): used in an assignment, operand v0 is `names[0]`
        use, e = 0, expr
    body = list(load) + [{'t': 'match', 'm': {'k': 're', 'r': {'k': 'any'}, 'bin': False}}]
    if use == 0:
        body += [{'t': 'set', 'var': 'res', 'e': e}]
    elif use == 1:
        body += [{'t': 'appendc', 'var': 's', 'e': e}]
    elif use == 2:
        c = cond(2)
        body += [{'t': 'if', 'br': [{'c': c, 'b': [{'t': 'set', 'var': 'flag', 'e': {'k': 'num', 'v': 1}}]}], 'els': [{'t': 'set', 'var': 'flag', 'e': {'k': 'num', 'v': 2}}]},
                 {'t': 'set', 'var': 'res', 'e': e}]
    else:
        c = cond(2)
        # condition point: bodies consume, so $last is not allowed in the condition
        def strip(x):
            if isinstance(x, dict):
                if x.get('k') == 'last':
                    return {'k': 'var', 'name': names[0]}
                return {k: strip(v) for k, v in x.items()}
            if isinstance(x, list):
                return [strip(v) for v in x]
            return x
        body += [{'t': 'match', 'm': {'k': 'str', 'bytes': [120]}},
                 {'t': 'if', 'br': [{'c': strip(c), 'b': [{'t': 'match', 'm': {'k': 'str', 'bytes': [121]}}, {'t': 'set', 'var': 'flag', 'e': {'k': 'num', 'v': 1}}]}],
                  'els': [{'t': 'match', 'm': {'k': 'str', 'bytes': [122]}}, {'t': 'set', 'var': 'flag', 'e': {'k': 'num', 'v': 2}}]}]
    body += [{'t': 'hook', 'n': 'h'}, {'t': 'match', 'm': {'k': 'str', 'bytes': [33]}}]
    p = _mk(outs, ['h'], [], [], body)
    return p, spell_program(p)


# ---------------------------------------------------------------------------
def _subst_expr(e, env):
    if isinstance(e, dict):
        if e.get('k') == 'arg':
            return env[e['name']]['expr']
        if e.get('k') in ('var', 'len', 'idx') and e.get('name') in env and env[e['name']]['kind'] == 'out':
            e = dict(e, name=env[e['name']]['name'])
        return {k: _subst_expr(v, env) for k, v in e.items()}
    if isinstance(e, list):
        return [_subst_expr(v, env) for v in e]
    return e


def _subst_match(m, env):
    if m['k'] == 'arg':
        return env[m['name']]['match']
    if m['k'] == 'cat':
        return {'k': 'cat', 'ms': [_subst_match(x, env) for x in m['ms']]}
    return m


def inline_macros(prog):
    """the textual expansion of a macro program (own implementation: every call replaced by the body with arguments substituted)"""
    macros = {m['name']: m for m in prog['macros']}

    def name_of(n, env, kind):
        if n in env and env[n]['kind'] == kind:
            return env[n]['name']
        return n

    def expand(ss, env):
        out = []
        for s in ss:
            t = s['t']
            if t == 'call':
                target = s['n']
                if target in env and env[target]['kind'] == 'macro':
                    target = env[target]['name']
                if target in macros:
                    m = macros[target]
                    new_env = {}
                    for (kind, pname), arg in zip(m['params'], s['argv']):
                        if kind == 'match':
                            new_env[pname] = {'kind': 'match', 'match': _subst_match(arg, env)}
                        elif kind == 'expr':
                            new_env[pname] = {'kind': 'expr', 'expr': _subst_expr(arg, env)}
                        else:
                            nm = arg
                            if nm in env and env[nm]['kind'] == kind:
                                nm = env[nm]['name']
                            new_env[pname] = {'kind': kind, 'name': nm}
                    out.extend(expand(m['b'], new_env))
                else:
                    out.append({'t': 'hook', 'n': name_of(target, env, 'hook')})
            elif t == 'hook':
                n = s['n']
                if n in env and env[n]['kind'] == 'hook':
                    out.append({'t': 'hook', 'n': env[n]['name']})
                elif n in env and env[n]['kind'] == 'macro':
                    out.extend(expand([{'t': 'call', 'n': n, 'argv': []}], env))
                else:
                    out.append(s)
            elif t in ('match', 'wait'):
                out.append(dict(s, m=_subst_match(s['m'], env)))
            elif t == 'append':
                out.append(dict(s, var=name_of(s['var'], env, 'out'), m=_subst_match(s['m'], env)))
            elif t in ('set', 'appendc'):
                out.append(dict(s, var=name_of(s['var'], env, 'out'), e=_subst_expr(s['e'], env)))
            elif t in ('setstr', 'delete'):
                out.append(dict(s, var=name_of(s['var'], env, 'out')))
            elif t == 'finish':
                out.append(dict(s, code=name_of(s['code'], env, 'finishcode') if s['code'] else s['code']))
            elif t == 'yield':
                out.append(dict(s, code=name_of(s['code'], env, 'yieldcode')))
            elif t == 'break':
                out.append(dict(s, loop=name_of(s['loop'], env, 'loop') if s.get('loop') else None))
            elif t == 'loop':
                out.append(dict(s, b=expand(s['b'], env)))
            elif t == 'opt':
                out.append(dict(s, b=expand(s['b'], env)))
            elif t == 'try':
                out.append(dict(s, b=expand(s['b'], env), h=expand(s['h'], env)))
            elif t == 'foreach':
                out.append(dict(s, b=expand(s['b'], env), acts=expand(s['acts'], env)))
            elif t == 'if':
                out.append(dict(s, br=[{'c': _subst_expr(b['c'], env), 'b': expand(b['b'], env)} for b in s['br']],
                                els=expand(s['els'], env) if s.get('els') is not None else None))
            elif t == 'case':
                out.append(dict(s, cl=[dict(c, ps=[p if p == 'else' else _subst_match(p, env) for p in c['ps']], b=expand(c['b'], env)) for c in s['cl']]))
            else:
                out.append(s)
        return out
    p2 = dict(prog, macros=[], body=expand(prog['body'], {}))
    return p2


def spell_call_arg(kind, arg):
    if kind == 'match':
        return spell_match(arg)
    if kind == 'expr':
        return spell_rhs(arg)
    return arg


def gen_macro_program(seed, bad=None):
    """C13: a program using macros (nested calls, every argument kind) and, from the same AST, its hand-inlined twin.
    bad: None | 'arity' | 'kind' | 'surplus' - deliberately ill-formed call (must be diagnosed)"""
    r = random.Random(seed)
    A = list(b'abcd')
    outs = [{'name': 'n', 'type': 'int', 'signed': None, 'width': None, 'default': 0}, {'name': 'k', 'type': 'int', 'signed': None, 'width': 2, 'default': 1},
            {'name': 's', 'type': 'str', 'size': 4, 'term': True, 'default': None},
            {'name': 'a', 'type': 'int', 'signed': None, 'width': None, 'default': 0}, {'name': 'b', 'type': 'int', 'signed': None, 'width': None, 'default': 0},
            {'name': 'e', 'type': 'enum', 'values': ['EA', 'EB', 'EC'], 'default': None}]
    hooks = ['h0', 'h1']
    fcodes = ['F0', 'F1']
    lit = lambda: {'k': 'str', 'bytes': [r.choice(A) for _ in range(r.randint(1, 2))]}
    # m_put(out a, out b, expr x, expr y): a = x; b = y;      (parameter names coincide with output names: swap-style calls)
    m_put = {'name': 'm_put', 'params': [('out', 'a'), ('out', 'b'), ('expr', 'x'), ('expr', 'y')],
             'b': [{'t': 'set', 'var': 'a', 'e': {'k': 'arg', 'name': 'x'}}, {'t': 'set', 'var': 'b', 'e': {'k': 'arg', 'name': 'y'}}]}
    # m_two(hook first, hook second): first(); second();
    m_two = {'name': 'm_two', 'params': [('hook', 'first'), ('hook', 'second')], 'b': [{'t': 'hook', 'n': 'first'}, {'t': 'hook', 'n': 'second'}]}
    # m_on(expr want, finishcode code): if e == want { finish code; }     m_mark(expr v): e = v;
    m_on = {'name': 'm_on', 'params': [('expr', 'want'), ('finishcode', 'code')],
            'b': [{'t': 'if', 'br': [{'c': {'k': 'bin', 'op': '==', 'l': {'k': 'var', 'name': 'e'}, 'r': {'k': 'arg', 'name': 'want'}}, 'b': [{'t': 'finish', 'code': 'code'}]}], 'els': None}]}
    m_mark = {'name': 'm_mark', 'params': [('expr', 'v')], 'b': [{'t': 'set', 'var': 'e', 'e': {'k': 'arg', 'name': 'v'}}]}
    # m_set(out tgt, expr val, hook hk): tgt = [tgt + val]; hk();
    m_set = {'name': 'm_set', 'params': [('out', 'tgt'), ('expr', 'val'), ('hook', 'hk')],
             'b': [{'t': 'set', 'var': 'tgt', 'e': {'k': 'bin', 'op': '+', 'l': {'k': 'var', 'name': 'tgt'}, 'r': {'k': 'arg', 'name': 'val'}}}, {'t': 'hook', 'n': 'hk'}]}
    # m_read(match pat, out buf, match delim): buf += pat; delim;
    m_read = {'name': 'm_read', 'params': [('match', 'pat'), ('out', 'buf'), ('match', 'delim')],
              'b': [{'t': 'try', 'b': [{'t': 'append', 'var': 'buf', 'm': {'k': 'arg', 'name': 'pat'}}], 'handles': ['outofspace'], 'h': [{'t': 'delete', 'var': 'buf'}, {'t': 'wait', 'm': {'k': 'arg', 'name': 'delim'}}]},
                    {'t': 'match', 'm': {'k': 'arg', 'name': 'delim'}}]}
    # m_stop(loop lp, finishcode fc, expr lim): if n >= lim { break lp; }  if k > 100 { finish fc; }
    m_stop = {'name': 'm_stop', 'params': [('loop', 'lp'), ('finishcode', 'fc'), ('expr', 'lim')],
              'b': [{'t': 'if', 'br': [{'c': {'k': 'bin', 'op': '>=', 'l': {'k': 'var', 'name': 'n'}, 'r': {'k': 'arg', 'name': 'lim'}}, 'b': [{'t': 'break', 'loop': 'lp'}]}], 'els': None},
                    {'t': 'if', 'br': [{'c': {'k': 'bin', 'op': '>', 'l': {'k': 'var', 'name': 'k'}, 'r': {'k': 'num', 'v': 100}}, 'b': [{'t': 'finish', 'code': 'fc'}]}], 'els': None}]}
    # m_twice(macro inner, out cnt, hook hk2): inner(); m_set(cnt, 2, hk2);   (nested call forwarding its own parameters)
    m_twice = {'name': 'm_twice', 'params': [('macro', 'inner'), ('out', 'cnt'), ('hook', 'hk2')],
               'b': [{'t': 'call', 'n': 'inner', 'argv': []}, {'t': 'call', 'n': 'm_set', 'argv': ['cnt', {'k': 'num', 'v': r.choice([1, 2, 3])}, 'hk2']}]}
    # m_ws(): optional { " "; }
    m_ws = {'name': 'm_ws', 'params': [], 'b': [{'t': 'opt', 'b': [{'t': 'match', 'm': {'k': 'str', 'bytes': [32]}}]}]}
    m_tab = {'name': 'm_tab', 'params': [], 'b': [{'t': 'opt', 'b': [{'t': 'match', 'm': {'k': 'str', 'bytes': [9]}}, {'t': 'hook', 'n': 'h0'}]}]}
    # m_echo(match kw, out buf, hook hk): kw; hk(); "="; buf += kw;      (a match parameter used twice, each use with its own actions)
    m_echo = {'name': 'm_echo', 'params': [('match', 'kw'), ('out', 'buf'), ('hook', 'hk')],
              'b': [{'t': 'match', 'm': {'k': 'arg', 'name': 'kw'}}, {'t': 'hook', 'n': 'hk'}, {'t': 'match', 'm': {'k': 'str', 'bytes': [61]}},
                    {'t': 'try', 'b': [{'t': 'append', 'var': 'buf', 'm': {'k': 'arg', 'name': 'kw'}}], 'handles': ['outofspace'], 'h': [{'t': 'delete', 'var': 'buf'}]},
                    {'t': 'match', 'm': {'k': 'str', 'bytes': [44]}}]}
    macros = [m_set, m_read, m_stop, m_twice, m_ws, m_tab, m_put, m_two, m_on, m_mark, m_echo]
    d1, d2 = r.sample(A, 2)
    loop_body = [
        {'t': 'call', 'n': 'm_read', 'argv': [{'k': 're', 'r': {'k': 'plus', 'c': {'k': 'set', 'inv': False, 'items': [['ch', d1], ['ch', 120]]}}, 'bin': False}, 's', {'k': 'str', 'bytes': [59]}]},
        {'t': 'call', 'n': 'm_ws', 'argv': []},
        {'t': 'call', 'n': r.choice(['m_set', 'm_twice']), 'argv': None},
        {'t': 'call', 'n': 'm_stop', 'argv': ['L', r.choice(fcodes), {'k': 'num', 'v': r.choice([2, 3, 4])}]},
    ]
    extra = []
    if r.random() < 0.7:
        x, y = r.sample(['a', 'b'], 2) if r.random() < 0.7 else ('a', 'b')
        extra.append({'t': 'call', 'n': 'm_put', 'argv': [x, y, {'k': 'num', 'v': r.randint(1, 9)}, {'k': 'bin', 'op': '+', 'l': {'k': 'var', 'name': 'n'}, 'r': {'k': 'num', 'v': 10}}]})
    if r.random() < 0.6:
        extra.append({'t': 'call', 'n': 'm_two', 'argv': r.choice([['h0', 'h1'], ['h1', 'h0'], ['h1', 'h1']])})
    if r.random() < 0.6:
        extra.append({'t': 'call', 'n': 'm_mark', 'argv': [{'k': 'enum', 'name': r.choice(['EA', 'EB', 'EC'])}]})
        extra.append({'t': 'call', 'n': 'm_on', 'argv': [{'k': 'enum', 'name': r.choice(['EA', 'EB', 'EC'])}, r.choice(fcodes)]})
    loop_body[3:3] = extra
    # (a loop body may not end in an optional: a mandatory separator follows the optional whitespace)
    loop_body.insert(3, {'t': 'match', 'm': {'k': 'str', 'bytes': [58]}})
    if loop_body[2]['n'] == 'm_set':
        loop_body[2]['argv'] = [r.choice(['n', 'k']), r.choice([{'k': 'num', 'v': 1}, {'k': 'bin', 'op': '*', 'l': {'k': 'len', 'name': 's'}, 'r': {'k': 'num', 'v': 2}}, {'k': 'chr', 'c': 2}]), r.choice(hooks)]
    else:
        loop_body[2]['argv'] = ['m_tab', r.choice(['n', 'k']), r.choice(hooks)]
    if r.random() < 0.6:
        kw = r.choice([{'k': 'str', 'bytes': [101, 102]}, {'k': 'str', 'bytes': [102]}, {'k': 're', 'r': {'k': 'seq', 'c': [{'k': 'ch', 'c': 101}, {'k': 'set', 'inv': False, 'items': [['ch', 102], ['ch', 103]]}]}, 'bin': False}])
        loop_body.insert(0, {'t': 'call', 'n': 'm_echo', 'argv': [kw, 's', r.choice(hooks)]})
    body = [{'t': 'match', 'm': lit()}, {'t': 'loop', 'name': 'L', 'b': loop_body}, {'t': 'match', 'm': {'k': 'str', 'bytes': [33]}}]
    p = _mk(outs, hooks, fcodes, [], body)
    p['macros'] = macros
    twin = inline_macros(p)
    stop = [x for x in loop_body if x.get('n') == 'm_stop'][0]
    if bad == 'arity':
        stop['argv'] = stop['argv'][:2]
    elif bad == 'kind':
        stop['argv'][1] = {'k': 'num', 'v': 5}            # a number where a finishcode is declared
        stop['_kinds'] = ['loop', 'expr', 'expr']
    elif bad == 'surplus':
        # one argument too many: a well-formed expression, an undeclared name, a loop name, a regex - at the end or in front
        x = r.choice([{'k': 'num', 'v': 7}, 'nosuchname', 'L', {'k': 're', 'r': {'k': 'plus', 'c': {'k': 'ch', 'c': 97}}, 'bin': False}, 'n'])
        if isinstance(x, dict) and x.get('k') == 're':
            x = '/a+/'
        tgt = r.choice([c for c in loop_body if c['t'] == 'call'])
        kinds = [k for k, n in [m for m in macros if m['name'] == tgt['n']][0]['params']]
        tgt['argv'] = list(tgt['argv']) + [x]
        tgt['_kinds'] = kinds + ['expr']
    return p, spell_program(p), twin, spell_program(twin)


def gen_greedy_tie_program(seed):
    """C09 / C20: greedy cases in which three or more clause patterns can finish on the same input, with priorities drawn
    so that the highest priority is sometimes shared"""
    r = random.Random(seed)
    outs = [{'name': 'which', 'type': 'int', 'signed': None, 'width': None, 'default': 0}]
    c1, c2 = r.sample(list(b'abcdefgh'), 2)
    pats = [{'k': 're', 'r': {'k': 'seq', 'c': [{'k': 'set', 'inv': False, 'items': [['range', 97, 122]]}, {'k': 'set', 'inv': False, 'items': [['range', 97, 122]]}]}, 'bin': False},
            {'k': 'str', 'bytes': [c1, c2]},
            {'k': 're', 'r': {'k': 'seq', 'c': [{'k': 'ch', 'c': c1}, {'k': 'set', 'inv': False, 'items': [['range', 97, 104]]}]}, 'bin': False},
            {'k': 're', 'r': {'k': 'seq', 'c': [{'k': 'set', 'inv': False, 'items': [['ch', c1], ['ch', 120]]}, {'k': 'ch', 'c': c2}]}, 'bin': False}]
    n = r.randint(3, 4)
    r.shuffle(pats)
    cl = []
    for i in range(n):
        cl.append({'ps': [pats[i]], 'prio': r.choice([0, 1, 1, 2, 2]), 'b': [{'t': 'set', 'var': 'which', 'e': {'k': 'num', 'v': i + 1}}, {'t': 'match', 'm': {'k': 'str', 'bytes': [59]}}]})
    body = [{'t': 'case', 'greedy': True, 'cl': cl}, {'t': 'match', 'm': {'k': 'str', 'bytes': [33]}}]
    p = _mk(outs, [], [], [], body)
    return p, spell_program(p)


def gen_pair_program(seed):
    """C09: statement pairs `A; B` where the end of A is found by lookahead and B starts with an overlapping, disjoint or
    partially overlapping symbol set"""
    r = random.Random(seed)

    def cls():
        a = r.randint(97, 104)
        k = r.random()
        if k < 0.4:
            return {'k': 'set', 'inv': False, 'items': [['range', a, min(122, a + r.randint(0, 5))]]}
        if k < 0.7:
            return {'k': 'set', 'inv': False, 'items': [['ch', r.randint(97, 104)] for _ in range(r.randint(1, 3))]}
        if k < 0.8:
            return {'k': 'set', 'inv': True, 'items': [['ch', r.randint(97, 104)] for _ in range(r.randint(1, 2))]}
        return {'k': 'ch', 'c': r.randint(97, 104)}
    re_ = lambda x: {'k': 're', 'r': x, 'bin': False}
    ka = r.randrange(6)
    if ka == 0:
        A = [{'t': 'match', 'm': re_({'k': 'plus', 'c': cls()})}]
    elif ka == 1:
        A = [{'t': 'match', 'm': re_({'k': 'seq', 'c': [{'k': 'ch', 'c': 120}, {'k': 'star', 'c': cls()}]})}]
    elif ka == 2:
        A = [{'t': 'opt', 'b': [{'t': 'match', 'm': re_(cls())}]}]
    elif ka == 3:
        A = [{'t': 'match', 'm': {'k': 'str', 'bytes': [120]}}, {'t': 'case', 'greedy': False, 'cl': [{'ps': [re_({'k': 'seq', 'c': [{'k': 'ch', 'c': 121}, {'k': 'star', 'c': cls()}]})], 'prio': 0, 'b': []},
                                                                                                    {'ps': [{'k': 'str', 'bytes': [122]}], 'prio': 0, 'b': []}]}]
    elif ka == 4:
        A = [{'t': 'match', 'm': re_({'k': 'range', 'c': cls(), 'n': 1, 'm': 3})}]
    else:
        A = [{'t': 'loop', 'name': None, 'b': [{'t': 'match', 'm': re_({'k': 'plus', 'c': cls()})}, {'t': 'match', 'm': re_({'k': 'opt', 'c': {'k': 'ch', 'c': 44}})}]}]
    kb = r.randrange(6)
    outs = []
    if kb >= 4:
        # B is an if / else on an output: each branch starts with its own set (often inverted, so that a byte is excluded explicitly
        # by one branch and accepted only through the wildcard move of the other)
        def icls():
            if r.random() < 0.6:
                return {'k': 'set', 'inv': True, 'items': [['ch', r.randint(97, 104)] for _ in range(r.randint(1, 2))]}
            return cls() if r.random() < 0.7 else {'k': 'any'}
        outs = [{'name': 'b0', 'type': 'bool', 'default': r.choice([None, 1])}]
        br = [{'c': {'k': 'var', 'name': 'b0'}, 'b': [{'t': 'match', 'm': re_(icls())}]}]
        if kb == 5:
            outs.append({'name': 'n0', 'type': 'int', 'signed': None, 'width': None, 'default': r.choice([None, 3])})
            br.append({'c': {'k': 'bin', 'op': '>', 'l': {'k': 'var', 'name': 'n0'}, 'r': {'k': 'num', 'v': 2}}, 'b': [{'t': 'match', 'm': re_(icls())}]})
        B = [{'t': 'if', 'br': br, 'els': [{'t': 'match', 'm': re_(icls())}]}]
    elif kb == 0:
        B = [{'t': 'match', 'm': re_(cls())}]
    elif kb == 1:
        B = [{'t': 'match', 'm': {'k': 'stri', 'bytes': [r.randint(97, 104)]}}]
    elif kb == 2:
        B = [{'t': 'case', 'greedy': False, 'cl': [{'ps': [re_(cls())], 'prio': 0, 'b': []}, {'ps': [{'k': 'str', 'bytes': [33]}], 'prio': 0, 'b': []}]}]
    else:
        B = [{'t': 'opt', 'b': [{'t': 'match', 'm': re_(cls())}]}, {'t': 'match', 'm': {'k': 'str', 'bytes': [33]}}]
    body = A + B + [{'t': 'match', 'm': {'k': 'str', 'bytes': [46]}}]
    if r.random() < 0.2 and ka in (0, 1, 2, 4):
        # loop exit through a conditional break: `loop L { A; if b0 { break L; } else { C; b0 = true; } } B` - the byte after A may continue A,
        # start C, or (through the break) start B
        if not any(o['name'] == 'b0' for o in outs):
            outs = outs + [{'name': 'b0', 'type': 'bool', 'default': None}]
        brk = [{'t': 'break', 'loop': 'L'}] if r.random() < 0.7 else [{'t': 'set', 'var': 'b0', 'e': {'k': 'bool', 'v': 0}}, {'t': 'break', 'loop': 'L'}]
        other = [{'t': 'match', 'm': re_(cls())}, {'t': 'set', 'var': 'b0', 'e': {'k': 'bool', 'v': 1}}]
        loop = {'t': 'loop', 'name': 'L', 'b': A + [{'t': 'if', 'br': [{'c': {'k': 'var', 'name': 'b0'}, 'b': brk}], 'els': other}]}
        body = [loop, {'t': 'match', 'm': re_(cls())}, {'t': 'match', 'm': {'k': 'str', 'bytes': [46]}}]
    p = _mk(outs, [], [], [], body)
    return p, spell_program(p)
