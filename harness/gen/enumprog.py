"""Bounded-exhaustive enumeration of nmfu statement programs.

Where gen/prog.py samples programs at random, this module lists *every* program of a compact statement grammar up to a node budget, in
a fixed order, so that a check can say "all programs of size <= k" (thorough) or walk a strided slice of that list whose offset rotates
with the seed (quick).  The grammar is small on purpose - two data bytes, one open-ended regex, one bounded string, one counter - but it
has every control construct of the language, and all ways of nesting them within the budget:

  atom     ::= "a" | "b" | "ab" | /a+/ | wait "b" | s0 += "a" | s0 += /b+/
  action   ::= h0() | n0 = [n0 + 1] | yield Y0 | finish F0 | break            (break only inside a loop)
  compound ::= loop { B } | optional { B } | try { B } catch { B' } | foreach { B } do { h1(); }
             | case { "a" -> { B' } "b" -> { B' } } | case { "a" -> { B' } else -> { B' } } | greedy case { "a" -> {B'} /a+b/ -> {B'} }
             | if n0 >= 1 { B } [else { B }]
  B  = non-empty statement list, B' = possibly empty statement list
  program  ::= B "~"                                                           (the sentinel keeps the end of the program strict)

size(stmt) = 1 + sizes of the nested lists.  Programs are ASTs in the format of gen/prog.py; the compiler decides which are accepted."""
import copy
import functools
from . import prog as genprog

A, B_, T = 0x61, 0x62, 0x7e


def _lit(*bs):
    return {'t': 'match', 'm': {'k': 'str', 'bytes': list(bs)}}


_APLUS = {'k': 'plus', 'c': {'k': 'ch', 'c': A}}
_BPLUS = {'k': 'plus', 'c': {'k': 'ch', 'c': B_}}
_APLUSB = {'k': 'seq', 'c': [{'k': 'plus', 'c': {'k': 'ch', 'c': A}}, {'k': 'ch', 'c': B_}]}

ATOMS = [
    _lit(A), _lit(B_), _lit(A, B_),
    {'t': 'match', 'm': {'k': 're', 'r': _APLUS, 'bin': False}},
    {'t': 'wait', 'm': {'k': 'str', 'bytes': [B_]}},
    {'t': 'append', 'var': 's0', 'm': {'k': 'str', 'bytes': [A]}},
    {'t': 'append', 'var': 's0', 'm': {'k': 're', 'r': _BPLUS, 'bin': False}},
]
_INC = {'t': 'set', 'var': 'n0', 'e': {'k': 'bin', 'op': '+', 'l': {'k': 'var', 'name': 'n0'}, 'r': {'k': 'num', 'v': 1}}}
ACTIONS = [
    {'t': 'hook', 'n': 'h0'}, _INC, {'t': 'yield', 'code': 'Y0'}, {'t': 'finish', 'code': 'F0'},
]
_BREAK = {'t': 'break', 'loop': None}
_COND = {'k': 'bin', 'op': '>=', 'l': {'k': 'var', 'name': 'n0'}, 'r': {'k': 'num', 'v': 1}}


@functools.lru_cache(maxsize=None)
def _lists(n, in_loop, allow_empty):
    """all statement lists of total size exactly n (tuple of tuples of statements; statements are shared, copy before use)"""
    if n == 0:
        return ((),) if allow_empty else ()
    out = []
    for k in range(1, n + 1):
        for s in _stmts(k, in_loop):
            for rest in _lists(n - k, in_loop, True):
                out.append((s,) + rest)
    return tuple(out)


def _upto(n, in_loop, allow_empty):
    out = []
    for k in range(0 if allow_empty else 1, n + 1):
        out.extend(_lists(k, in_loop, allow_empty))
    return out


def _splits(n, parts):
    """all ways of writing n as an ordered sum of `parts` non-negative integers"""
    if parts == 1:
        yield (n,)
        return
    for k in range(n + 1):
        for r in _splits(n - k, parts - 1):
            yield (k,) + r


@functools.lru_cache(maxsize=None)
def _stmts(n, in_loop):
    """all statements of size exactly n"""
    if n == 1:
        out = list(ATOMS) + list(ACTIONS) + ([_BREAK] if in_loop else [])
        # constructs with empty nested lists
        out.append({'t': 'case', 'greedy': False, 'cl': [{'ps': [ATOMS[0]['m']], 'prio': 0, 'b': []}, {'ps': [ATOMS[1]['m']], 'prio': 0, 'b': []}]})
        out.append({'t': 'case', 'greedy': False, 'cl': [{'ps': [ATOMS[0]['m']], 'prio': 0, 'b': []}, {'ps': ['else'], 'prio': 0, 'b': []}]})
        out.append({'t': 'case', 'greedy': True, 'cl': [{'ps': [ATOMS[0]['m']], 'prio': 0, 'b': []},
                                                       {'ps': [{'k': 're', 'r': _APLUSB, 'bin': False}], 'prio': 0, 'b': []}]})
        return tuple(out)
    out = []
    m = n - 1
    for b in _lists(m, True, False):
        out.append({'t': 'loop', 'name': None, 'b': list(b)})
    for b in _lists(m, in_loop, False):
        out.append({'t': 'opt', 'b': list(b)})
        out.append({'t': 'foreach', 'b': list(b), 'acts': [{'t': 'hook', 'n': 'h1'}]})
    for k1, k2 in _splits(m, 2):
        if k1 == 0:
            continue
        for b in _lists(k1, in_loop, False):
            for h in _lists(k2, in_loop, True):
                out.append({'t': 'try', 'b': list(b), 'handles': None, 'h': list(h)})
    for k1, k2 in _splits(m, 2):
        for b1 in _lists(k1, in_loop, True):
            for b2 in _lists(k2, in_loop, True):
                out.append({'t': 'case', 'greedy': False, 'cl': [{'ps': [ATOMS[0]['m']], 'prio': 0, 'b': list(b1)}, {'ps': [ATOMS[1]['m']], 'prio': 0, 'b': list(b2)}]})
                out.append({'t': 'case', 'greedy': False, 'cl': [{'ps': [ATOMS[0]['m']], 'prio': 0, 'b': list(b1)}, {'ps': ['else'], 'prio': 0, 'b': list(b2)}]})
                out.append({'t': 'case', 'greedy': True, 'cl': [{'ps': [ATOMS[0]['m']], 'prio': 0, 'b': list(b1)},
                                                               {'ps': [{'k': 're', 'r': _APLUSB, 'bin': False}], 'prio': 0, 'b': list(b2)}]})
                if b1:      # the grammar has no empty if body; an empty else is spelled by leaving it out
                    out.append({'t': 'if', 'br': [{'c': _COND, 'b': list(b1)}], 'els': list(b2) if b2 else None})
    return tuple(out)


def count(maxsize):
    return sum(len(_lists(k, False, False)) for k in range(1, maxsize + 1))


DECLS = dict(
    outs=[{'name': 's0', 'type': 'str', 'size': 3, 'term': True, 'default': None},
          {'name': 'n0', 'type': 'int', 'signed': None, 'width': None, 'default': None}],
    hooks=['h0', 'h1'], fcodes=['F0'], ycodes=['Y0'])


def _uses(ss, t):
    for s in ss:
        if s['t'] == t:
            return True
        for key in ('b', 'h', 'els', 'acts'):
            if isinstance(s.get(key), list) and _uses(s[key], t):
                return True
        if s['t'] == 'case' and any(_uses(cl['b'], t) for cl in s['cl']):
            return True
        if s['t'] == 'if' and any(_uses(br['b'], t) for br in s['br']):
            return True
    return False


def _actionish(s):
    return s['t'] in ('hook', 'set', 'yield', 'finish', 'break', 'if', 'setstr', 'appendc', 'delete')


def greedy_early(ss, top=True):
    """shape of the known finding greedy-action-only-early: a greedy case whose shorter clause ("a") is followed - in its body or, if
    the body is empty, after the case - by an action before anything consumes input (conservative: an `if` counts as an action)"""
    for i, s in enumerate(ss):
        if s['t'] == 'case' and s.get('greedy'):
            b1 = s['cl'][0]['b']
            if b1:
                if _actionish(b1[0]):
                    return True
            elif i + 1 < len(ss):
                if _actionish(ss[i + 1]):
                    return True
            elif not top:
                return True
        for key in ('b', 'h', 'els'):
            if isinstance(s.get(key), list) and greedy_early(s[key], False):
                return True
        if s['t'] == 'case' and any(greedy_early(cl['b'], False) for cl in s['cl']):
            return True
        if s['t'] == 'if' and any(greedy_early(br['b'], False) for br in s['br']):
            return True
    return False


def foreach_wait(ss, inside=False):
    """shape of the known finding foreach-wait-end-each-actions (needs EOF support): a wait inside a foreach body"""
    for s in ss:
        if s['t'] == 'wait' and inside:
            return True
        ins = inside or s['t'] == 'foreach'
        for key in ('b', 'h', 'els'):
            if isinstance(s.get(key), list) and foreach_wait(s[key], ins):
                return True
        if s['t'] == 'case' and any(foreach_wait(cl['b'], ins) for cl in s['cl']):
            return True
        if s['t'] == 'if' and any(foreach_wait(br['b'], ins) for br in s['br']):
            return True
    return False


def _open(s):
    m = s.get('m') if s['t'] in ('match', 'append') else None
    return bool(m and m.get('k') == 're' and genprog.regex_open_ended(m['r']))


def _starts_with_action(ss, after):
    """can the first thing performed when control reaches statement list ss be an action?  `after`: the same question for what follows
    the list.  Conservative (over-approximates): an `if` counts as an action."""
    if not ss:
        return after
    s = ss[0]
    if _actionish(s):
        return True
    t = s['t']
    if t in ('match', 'append', 'wait', 'case'):
        return False
    rest = _starts_with_action(ss[1:], after)
    if t == 'opt':
        return _starts_with_action(s['b'], rest) or rest
    if t in ('try', 'foreach'):
        return _starts_with_action(s['b'], rest)
    if t == 'loop':
        return _starts_with_action(s['b'], False)
    return True


def op8_shape(ss, after=False):
    """open point OP8 (DESIGN.md section 5): an action is the next thing performed after an open-ended regex has ended by lookahead - through
    any nesting (the regex may be the last statement of a block and the action may follow the block).  nmfu chains such actions lazily
    onto the transitions of what follows only; the oracle does not model that and the generators keep away from it."""
    for i, s in enumerate(ss):
        nxt = _starts_with_action(ss[i + 1:], after)
        if _open(s) and nxt:
            return True
        t = s['t']
        if t in ('opt', 'try', 'foreach'):
            if op8_shape(s['b'], nxt) or (t == 'try' and op8_shape(s['h'], nxt)):
                return True
        elif t == 'loop':
            if op8_shape(s['b'], _starts_with_action(s['b'], False) or nxt):      # back edge, or a break in front of the regex's end
                return True
        elif t == 'case':
            if any(op8_shape(cl['b'], nxt) for cl in s['cl']):
                return True
        elif t == 'if':
            if any(op8_shape(br['b'], nxt) for br in s['br']) or (s.get('els') and op8_shape(s['els'], nxt)):
                return True
    return False


def foreach_clause_action(ss, inside=False):
    """shape of the known finding foreach-clause-action-after-each: inside a foreach, a case clause whose body starts with an action
    and goes on to consume input"""
    for s in ss:
        ins = inside or s['t'] == 'foreach'
        if s['t'] == 'case':
            for cl in s['cl']:
                if ins and cl['b'] and _actionish(cl['b'][0]) and _consuming(cl['b']):
                    return True
                if foreach_clause_action(cl['b'], ins):
                    return True
        for key in ('b', 'h', 'els'):
            if isinstance(s.get(key), list) and foreach_clause_action(s[key], ins):
                return True
        if s['t'] == 'if' and any(foreach_clause_action(br['b'], ins) for br in s['br']):
            return True
    return False


def opt_weak_start(ss):
    """open point OP3: an optional whose body does not start with a plain match (a case with an `else` arm, a try, an if, a wait, an
    action) - whether a byte that only the fall-back would take enters the optional is not settled by the reference"""
    def weak(f):
        if _actionish(f) or f['t'] in ('try', 'wait'):
            return True
        if f['t'] == 'case':
            return any('else' in cl['ps'] for cl in f['cl'])
        if f['t'] in ('match', 'append'):
            m = f['m']
            return m.get('k') == 're' and genprog.regex_nullable(m['r'])
        if f['t'] in ('loop', 'foreach', 'opt'):
            return bool(f['b']) and weak(f['b'][0])
        return False
    for s in ss:
        if s['t'] == 'opt' and s['b'] and weak(s['b'][0]):
            return True
        for key in ('b', 'h', 'els'):
            if isinstance(s.get(key), list) and opt_weak_start(s[key]):
                return True
        if s['t'] == 'case' and any(opt_weak_start(cl['b']) for cl in s['cl']):
            return True
        if s['t'] == 'if' and any(opt_weak_start(br['b']) for br in s['br']):
            return True
    return False


def dead_after_break(ss):
    """a statement directly behind an unconditional break in the same list (unreachable code)"""
    for i, s in enumerate(ss):
        if s['t'] == 'break' and i + 1 < len(ss):
            return True
        for key in ('b', 'h', 'els'):
            if isinstance(s.get(key), list) and dead_after_break(s[key]):
                return True
        if s['t'] == 'case' and any(dead_after_break(cl['b']) for cl in s['cl']):
            return True
        if s['t'] == 'if' and any(dead_after_break(br['b']) for br in s['br']):
            return True
    return False


def _has_finish(ss):
    return any(s['t'] == 'finish' or (s['t'] == 'if' and (any(_has_finish(br['b']) for br in s['br']) or _has_finish(s.get('els') or []))) for s in ss)


def _leading_finish(ss, after):
    """does the run of actions performed first when control reaches list ss (through blocks that need no input to be entered) hold a
    finish?  `after`: the same for what follows the list.  Conservative."""
    for i, s in enumerate(ss):
        t = s['t']
        if t == 'finish':
            return True
        if t == 'if':
            if _has_finish([s]):
                return True
            continue                        # (an if without finish: treated as passed)
        if _actionish(s):
            continue
        if t in ('match', 'append', 'wait', 'case'):
            return False
        rest = _leading_finish(ss[i + 1:], after)
        if t == 'opt':
            return rest                      # entering an optional needs a byte; skipping it leads on
        if t in ('try', 'foreach'):
            return _leading_finish(s['b'], rest)
        if t == 'loop':
            return _leading_finish(s['b'], False)
        return True
    return after


def lazy_finish_shape(ss, after=False):
    """shape of the known finding finish-after-skipped-construct: a `finish` is among the actions performed right after an optional has
    been skipped (the regex case is open point OP8).  nmfu attaches such actions to the transitions of what follows only, so a byte that
    is not one of those gives FAIL where the procedural reading finishes."""
    for i, s in enumerate(ss):
        nxt = _leading_finish(ss[i + 1:], after)
        t = s['t']
        if t == 'opt' and nxt:
            return True
        if t in ('opt', 'try', 'foreach'):
            if lazy_finish_shape(s['b'], nxt) or (t == 'try' and lazy_finish_shape(s['h'], nxt)):
                return True
        elif t == 'loop':
            if lazy_finish_shape(s['b'], _leading_finish(s['b'], False) or nxt):
                return True
        elif t == 'case':
            if any(lazy_finish_shape(cl['b'], nxt) for cl in s['cl']):
                return True
        elif t == 'if':
            if any(lazy_finish_shape(br['b'], nxt) for br in s['br']) or (s.get('els') and lazy_finish_shape(s['els'], nxt)):
                return True
    return False


LEVELS = ('-O0', '-O1', '-O2', '-O3')


def programs(maxsize, stride=1, offset=0, minsize=1):
    """yield (index, name, ast, source, args) for every stride-th program (from `offset`) with minsize <= size <= maxsize, in list order.
    Optimisation level and EOF support rotate with the index so that every level is seen with every shape class over the full list."""
    idx = -1
    for k in range(minsize, maxsize + 1):
        for body in _lists(k, False, False):
            idx += 1
            if idx % stride != offset % stride:
                continue
            b = copy.deepcopy(list(body))
            b = genprog.avoid_op8(b)
            b.append(_lit(T))
            ast = dict(copy.deepcopy(DECLS), macros=[], body=b, args=[])
            if not _uses(b, 'yield'):
                ast['ycodes'] = []          # declaring a yield code without yield support is an error
            args = [LEVELS[(idx // 3) % 4]]
            if _uses(b, 'yield'):
                args.append('-fyield-support')
            if idx % 3 == 0 and not foreach_wait(b):
                args.append('-feof-support')
            ast['known_class'] = ('greedy-action-only-early' if greedy_early(b) else 'finish-after-skipped-construct' if lazy_finish_shape(b)
                                  else 'foreach-clause-action-after-each' if foreach_clause_action(b) else None)
            ast['op8'] = op8_shape(b) or opt_weak_start(b)
            yield idx, 'enum%d:%d' % (maxsize, idx), ast, genprog.spell_program(ast), args


# ---------------------------------------------------------------------------
# second dialect: the constructs the first one leaves out
#   atom     ::= "a" | "b" | end | s0 += "a" | s0 += /a+/          (s0 is a str[2]: one byte fits)
#   action   ::= h0() | delete s0 | s0 += [$last] | n0 = [n0 + 1] | finish F0 | break | break L0   (break L0 inside a nested loop)
#   compound ::= loop L<depth> { B } | optional { B } | try { B } catch (outofspace) { B' } | try { B } catch (nomatch) { B' }
#              | case { "a", "b" -> { B' } else -> { B' } } | case { end -> { B' } "a" -> { B' } } | if n0 >= 1 { B } elif n0 >= 0 { B }
#   every program is compiled with EOF support (the `end` pattern needs it)
_END = {'t': 'match', 'm': {'k': 'end'}}
ATOMS2 = [_lit(A), _lit(B_), _END,
          {'t': 'append', 'var': 's0', 'm': {'k': 'str', 'bytes': [A]}},
          {'t': 'append', 'var': 's0', 'm': {'k': 're', 'r': _APLUS, 'bin': False}}]
ACTIONS2 = [{'t': 'hook', 'n': 'h0'}, {'t': 'delete', 'var': 's0'}, {'t': 'appendc', 'var': 's0', 'e': {'k': 'last'}}, _INC, {'t': 'finish', 'code': 'F0'}]
_COND0 = {'k': 'bin', 'op': '>=', 'l': {'k': 'var', 'name': 'n0'}, 'r': {'k': 'num', 'v': 0}}


@functools.lru_cache(maxsize=None)
def _lists2(n, depth, allow_empty):
    if n == 0:
        return ((),) if allow_empty else ()
    out = []
    for k in range(1, n + 1):
        for s in _stmts2(k, depth):
            for rest in _lists2(n - k, depth, True):
                out.append((s,) + rest)
    return tuple(out)


@functools.lru_cache(maxsize=None)
def _stmts2(n, depth):
    A0, B0 = ATOMS2[0]['m'], ATOMS2[1]['m']
    if n == 1:
        out = list(ATOMS2) + list(ACTIONS2)
        if depth >= 1:
            out.append(_BREAK)
        if depth >= 2:
            out.append({'t': 'break', 'loop': 'L0'})
        out.append({'t': 'case', 'greedy': False, 'cl': [{'ps': [A0, B0], 'prio': 0, 'b': []}, {'ps': ['else'], 'prio': 0, 'b': []}]})
        out.append({'t': 'case', 'greedy': False, 'cl': [{'ps': [{'k': 'end'}], 'prio': 0, 'b': []}, {'ps': [A0], 'prio': 0, 'b': []}]})
        return tuple(out)
    out = []
    m = n - 1
    for b in _lists2(m, min(depth + 1, 2), False):
        out.append({'t': 'loop', 'name': 'L%d' % min(depth, 1), 'b': list(b)})
    for b in _lists2(m, depth, False):
        out.append({'t': 'opt', 'b': list(b)})
    for k1, k2 in _splits(m, 2):
        if k1 == 0:
            continue
        for b in _lists2(k1, depth, False):
            for h in _lists2(k2, depth, True):
                out.append({'t': 'try', 'b': list(b), 'handles': ['outofspace'], 'h': list(h)})
                out.append({'t': 'try', 'b': list(b), 'handles': ['nomatch'], 'h': list(h)})
    for k1, k2 in _splits(m, 2):
        for b1 in _lists2(k1, depth, True):
            for b2 in _lists2(k2, depth, True):
                out.append({'t': 'case', 'greedy': False, 'cl': [{'ps': [A0, B0], 'prio': 0, 'b': list(b1)}, {'ps': ['else'], 'prio': 0, 'b': list(b2)}]})
                out.append({'t': 'case', 'greedy': False, 'cl': [{'ps': [{'k': 'end'}], 'prio': 0, 'b': list(b1)}, {'ps': [A0], 'prio': 0, 'b': list(b2)}]})
                if b1 and b2:
                    out.append({'t': 'if', 'br': [{'c': _COND, 'b': list(b1)}, {'c': _COND0, 'b': list(b2)}], 'els': None})
    return tuple(out)


def count2(maxsize):
    return sum(len(_lists2(k, 0, False)) for k in range(1, maxsize + 1))


DECLS2 = dict(
    outs=[{'name': 's0', 'type': 'str', 'size': 2, 'term': True, 'default': None},
          {'name': 'n0', 'type': 'int', 'signed': None, 'width': None, 'default': None}],
    hooks=['h0'], fcodes=['F0'], ycodes=[])


def _consuming(ss):
    return any(not _actionish(s) or (s['t'] == 'if' and (any(_consuming(br['b']) for br in s['br']) or _consuming(s.get('els') or []))) for s in ss)


def input_after_end(ss, more=False):
    """does an `end` pattern have a statement that needs input behind it (in its list, in the clause it selects, behind an enclosing
    block, or through a loop's back edge)?  Such programs ask for data after the end of the input; what their pending actions do then is
    outside the EOF contract (C17 speaks of the actions that follow the pattern when it completes the program)."""
    for i, s in enumerate(ss):
        rest = more or _consuming(ss[i + 1:])
        t = s['t']
        if t == 'match' and s['m'].get('k') == 'end' and rest:
            return True
        if t == 'case':
            for cl in s['cl']:
                if any(isinstance(p, dict) and p.get('k') == 'end' for p in cl['ps']) and (rest or _consuming(cl['b'])):
                    return True
                if input_after_end(cl['b'], rest):
                    return True
        elif t == 'loop':
            if input_after_end(s['b'], True):
                return True
        elif t in ('opt', 'try', 'foreach'):
            if input_after_end(s['b'], rest) or (t == 'try' and input_after_end(s['h'], rest)):
                return True
        elif t == 'if':
            if any(input_after_end(br['b'], rest) for br in s['br']) or (s.get('els') and input_after_end(s['els'], rest)):
                return True
    return False


def _uses_end(ss):
    import json
    return '"k": "end"' in json.dumps(ss)


def programs2(maxsize, stride=1, offset=0, minsize=1):
    """the second dialect, same interface as programs()"""
    idx = -1
    for k in range(minsize, maxsize + 1):
        for body in _lists2(k, 0, False):
            idx += 1
            if idx % stride != offset % stride:
                continue
            if dead_after_break(body):
                continue                     # (unreachable statements behind an unconditional break: not listed)
            b = copy.deepcopy(list(body))
            b = genprog.avoid_op8(b)
            if not _uses_end(b):
                b.append(_lit(T))          # (a program with an `end` pattern gets no sentinel: nothing can follow the end of the input)
            ast = dict(copy.deepcopy(DECLS2), macros=[], body=b, args=[])
            args = [LEVELS[(idx // 3) % 4], '-feof-support']
            ast['known_class'] = 'finish-after-skipped-construct' if lazy_finish_shape(b) else None
            ast['op8'] = op8_shape(b) or input_after_end(b) or opt_weak_start(b)
            yield idx, 'enumB%d:%d' % (maxsize, idx), ast, genprog.spell_program(ast), args


if __name__ == '__main__':
    import sys
    n = int(sys.argv[1]) if len(sys.argv) > 1 else 3
    for k in range(1, n + 1):
        print('size', k, 'lists', len(_lists(k, False, False)), 'second dialect', len(_lists2(k, 0, False)))
    if len(sys.argv) > 2:
        for i, (idx, name, ast, src, args) in enumerate(programs(n, stride=int(sys.argv[2]))):
            if i < 5:
                print(name, args)
                print(src)
