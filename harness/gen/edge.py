"""C18: syntactically valid sources biased to semantic edge cases (the compiler must answer with code or a diagnosis)."""
import random
from gen import prog as genprog

SNIPPETS = [
    # (name, source, must_be_diagnosed)
    ('hex-escape-minus', 'parser { "a\\x-1"; }', False),
    ('hex-escape-minus-casei', 'parser { "\\x-ak"i; }', False),
    ('hex-escape-plus', 'parser { "\\x+4"; }', False),
    ('hex-escape-minus-default', 'out str[4] s = "\\x-f";\nparser { "a"; }', False),
    ('hex-escape-minus-assign', 'out str[4] s;\nparser { "a"; s = "\\x-2"; }', False),
    ('hex-escape-minus-case', 'parser { case { "\\x-3" -> { } "b" -> { } } }', False),
    ('hex-escape-space', 'parser { "\\x 1"; }', False),
    ('empty-macro-call', 'macro m() {\n}\nparser { "a"; m(); "b"; }', False),
    ('empty-macro-only', 'macro m() {\n}\nparser { m(); }', False),
    ('empty-macro-in-optional', 'macro m() {\n}\nparser { "a"; optional { m(); } "b"; }', True),
    ('empty-macro-in-loop', 'macro m() {\n}\nparser { "a"; loop { m(); } }', True),
    ('empty-macro-in-clause', 'macro m() {\n}\nparser { case { "a" -> { m(); } "b" -> { m(); "c"; } } }', False),
    ('empty-macro-nested', 'macro m() {\n}\nmacro m2() { m(); "x"; m(); }\nparser { m2(); m(); }', False),
    ('empty-macro-in-if', 'out int n;\nmacro m() {\n}\nparser { "a"; if n > 1 { m(); } "b"; }', False),
    ('form-feed-before-error', 'parser {\n    "a";\f\n    nope();\n}\n', True),
    ('form-feed-in-error-line', 'parser {\n    "a";\f nope();\n}\n', True),
    ('lone-cr-before-error', 'parser {\r    "a";\r    nope();\r}\r', True),
    ('crlf-before-error', 'parser {\r\n    "a";\r\n\tnope();\r\n}\r\n', True),
    ('vt-before-error', 'parser {\n    "a"; // \x0b\x1c\x85\n    nope();\n}\n', True),
    ('tab-column-error', 'parser {\n\t\t"a";\tnope();\n}\n', True),
    ('unknown-escape', 'parser { "a\\q"; }', True),
    ('unicode-escape', 'parser { "\\u1234"; }', True),
    ('raw-unicode-char', 'parser { "ሴ"; }', False),
    ('assign-to-raw', 'out raw{uint32_t} r;\nparser { "a"; r = 5; }', True),
    ('odd-int-width', 'out int{unsigned, size 3} n;\nparser { "a"; n = 1; }', True),
    ('odd-int-width-signed', 'out int{size 5} n;\nparser { "a"; n = 1; }', True),
    ('append-to-int', 'out int n;\nparser { n += "a"; }', True),
    ('append-expr-to-int', 'out int n;\nparser { "a"; n += [1]; }', True),
    ('action-only-program', 'hook h;\nparser { h(); }', False),
    ('finish-only-program', 'parser { finish; }', False),
    ('action-only-optional', 'hook h;\nparser { "a"; optional { h(); } "b"; }', True),
    ('action-only-loop', 'hook h;\nparser { "a"; loop { h(); } }', True),
    ('action-only-try', 'hook h;\nparser { try { h(); } catch { "a"; } }', True),
    ('action-only-case-clause-only', 'hook h;\nparser { case { "a" -> { h(); } } }', False),
    ('undefined-out', 'parser { "a"; nope = 1; }', True),
    ('undefined-hook', 'parser { "a"; nope(); }', True),
    ('undefined-loop', 'parser { loop { "a"; break nope; } }', True),
    ('break-outside-loop', 'parser { "a"; break; }', True),
    ('yield-without-support', 'yieldcode Y;\nparser { "a"; yield Y; }', True),
    ('end-without-eof', 'parser { "a"; end; }', True),
    ('undefined-finishcode', 'parser { "a"; finish NOPE; }', True),
    ('duplicate-out', 'out int n;\nout bool n;\nparser { "a"; }', True),
    ('duplicate-hook', 'hook h;\nhook h;\nparser { "a"; }', True),
    ('string-default-on-int', 'out int n = "abc";\nparser { "a"; }', True),
    ('int-default-on-string', 'out str[4] s = 5;\nparser { "a"; }', True),
    ('enum-default', 'out enum{A,B} e = A;\nparser { "a"; }', True),
    ('bool-assigned-int', 'out bool b;\nparser { "a"; b = 5; }', True),
    ('int-assigned-string', 'out int n;\nparser { "a"; n = "x"; }', True),
    ('string-assigned-int', 'out str[4] s;\nparser { "a"; s = 5; }', True),
    ('string-too-long', 'out str[3] s;\nparser { "a"; s = "abcd"; }', True),
    ('enum-unknown-constant', 'out enum{A,B} e;\nparser { "a"; e = C; }', True),
    ('index-non-string', 'out int n;\nout int m;\nparser { "a"; n = [m[0]]; }', True),
    ('len-non-string', 'out int n;\nout int m;\nparser { "a"; n = [m.len]; }', True),
    ('unknown-builtin', 'out int n;\nparser { "a"; n = [$first]; }', True),
    ('last-in-default', 'out int n = 5;\nparser { n = [$last]; "a"; }', True),
    ('last-in-condition-point', 'parser { "a"; if $last == 1 { "b"; } }', True),
    ('huge-repeat', 'parser { /a{300}/; }', False),
    ('huge-range-repeat', 'parser { /(ab){0,100}c/; }', False),
    ('nested-empty-star', 'parser { /(a*)*b/; }', False),
    ('nested-optional-star', 'parser { /(a?b?)*c/; }', False),
    ('empty-alternation-branchless', 'parser { /a|b|c|d|e|f|g|h/; }', False),
    ('zero-size-string', 'out str[0] s;\nparser { "a"; }', False),
    ('one-size-terminated-string', 'out str[1] s;\nparser { s += "a"; }', False),
    ('hex-size', 'out str[0x10] s;\nparser { s += /a+/; "b"; }', False),
    ('odd-binary-literal', 'parser { "abc"b; }', True),
    ('binary-default-odd', 'out str[4] s = "abc"b;\nparser { "a"; }', True),
    ('empty-string-match', 'parser { ""; "a"; }', False),
    ('empty-binary-match', 'parser { ""b; "a"; }', False),
    ('macro-recursion', 'macro m() { m(); }\nparser { "a"; m(); }', True),
    ('macro-wrong-arity', 'macro m(out x) { x = 1; }\nout int n;\nparser { "a"; m(); }', True),
    ('macro-wrong-kind', 'macro m(out x) { x = 1; }\nhook h;\nparser { "a"; m("b"); }', True),
    ('foreach-with-match-action', 'out int n;\nparser { foreach { "a"; } do { "b"; } }', True),
    ('foreach-empty-body-actions-only', 'out int n;\nparser { foreach { n = 1; } do { n = 2; } "a"; }', True),
    ('greedy-prio-tie', 'parser { greedy case { prio 1 "ab" -> {} prio 1 /a./ -> {} } }', True),
    ('case-only-else', 'parser { case { else -> { "a"; } } }', False),
    ('case-empty-else-only', 'parser { "x"; case { else -> {} } "y"; }', False),
    ('catch-unknown-option', 'parser { try { "a"; } catch (nomatch, outofspace) { } "b"; }', False),
    ('finish-in-foreach-actions', 'parser { foreach { "a"; } do { finish; } }', False),
    ('break-in-foreach-actions', 'parser { loop { foreach { "a"; } do { break; } } }', False),
    ('delete-int', 'out int n;\nparser { "a"; delete n; }', True),
    ('wait-end-no-eof', 'parser { wait end; }', True),
    ('out-named-state', 'out int state;\nparser { "a"; state = 1; }', False),
    ('enum-named-finish', 'out enum{A,B} finish;\nparser { "a"; }', True),
    ('if-string-condition', 'out str[4] s;\nparser { "a"; if s { "b"; } }', True),
    ('elif-chain-no-else', 'out int n;\nparser { "a"; if n == 1 { "b"; } elif n == 2 { "c"; } elif n == 3 { "d"; } "e"; }', False),
    ('int-minimum-literal', 'out int n;\nparser { "a"; n = -2147483648; }', False),
    ('int-huge-literal', 'out int n;\nparser { "a"; n = 99999999999999999999; }', False),
    ('char-const-escape', "out int n;\nparser { \"a\"; n = '\\z'; }", False),
    ('cond-break-and-finish', 'parser { loop { /[abc]/; if $last == 97 { break; } elif $last == 98 { finish; } } "x"; }', False),
    ('cond-named-break-and-finish-code', 'finishcode F;\nparser { loop outer { loop { /[abc]/; if $last == 97 { break outer; } elif $last == 98 { finish F; } else { break; } } "y"; } "x"; }', False),
    ('cond-append-and-finish', 'out str[3] s;\nparser { try { loop { /[ab]/; if $last == 97 { s += [$last]; } else { finish; } } } catch (outofspace) { "z"; } }', False),
    ('cond-yield-and-break', 'yieldcode Y;\nparser { loop { /[ab]/; if $last == 97 { yield Y; } else { break; } } "x"; }', False),
    ('ambig-wildcard-and-char-1', 'parser { /([^c]x|cy)*/; /./; }', True),
    ('ambig-wildcard-and-char-2', 'parser { optional { /[^c]x|cy/; } /[^q]/; "z"; }', True),
    ('ambig-wildcard-and-char-3', 'parser { optional { case { /[^c]x/, "cy" -> {} } } /./; }', True),
    ('ambig-wildcard-and-char-4', 'parser { /[^ab]*|ab/; /[^x]/; }', True),
    ('ambig-class-overlap', 'parser { /[ab]+/; /[bc]/; "z"; }', True),
    ('ambig-loop-exit', 'parser { loop { /[^;]x/; } ";"; }', False),
    ('shift-chain', 'out int n;\nparser { "a"; n = [(1 << 2) << 3]; }', False),
]


def edge_programs(rng, n_random):
    items = []
    for name, src, must in SNIPPETS:
        args = ['-O1'] + (['-fyield-support'] if 'yield' in name and 'without' not in name else [])
        items.append(('edge:' + name, src, args, must))
    # random mutations of well-formed generated programs: rename a referenced name, drop a declaration, change a width
    for i in range(n_random):
        s = rng.randrange(1 << 30)
        ast, src = genprog.generate(s, None, maxdepth=2, maxstmts=3)
        k = rng.randrange(5)
        lines = src.splitlines()
        if k == 0:
            decls = [j for j, l in enumerate(lines) if l.startswith(('out ', 'hook ', 'finishcode ', 'yieldcode '))]
            if decls:
                del lines[rng.choice(decls)]
        elif k == 1:
            lines = [l.replace('size 1', 'size 3').replace('size 2', 'size 7') for l in lines]
        elif k == 2:
            lines = [l.replace('n0', 's0', 1) if ('n0 =' in l and rng.random() < 0.5) else l for l in lines]
        elif k == 3:
            lines = [l.replace('break;', 'break nowhere;', 1) for l in lines]
        else:
            lines = [l.replace('"', '"\\q', 1) if (l.strip().startswith('"') and rng.random() < 0.3) else l for l in lines]
        items.append(('mut:%d:%d' % (s, k), '\n'.join(lines) + '\n', [rng.choice(['-O0', '-O1', '-O2', '-O3'])], False))
    return items


# ---------------------------------------------------------------------------
# systematic cross product: every kind of expression in every statement position that takes one, against every
# declared kind of name.  All of them are syntactically valid (the grammar has one `expr` for matches, values and
# arguments); most are ill-typed and must be *diagnosed*, none may crash the compiler.
CROSS_DECLS = ('out int n;\nout int{unsigned, size 1} u;\nout bool b;\nout enum{EA,EB} e;\nout str[4] s;\nout unterminated str[2] t;\n'
               'out raw{uint16_t} r;\nhook h;\nfinishcode FC;\nyieldcode YC;\n'
               'macro m0() { "q"; }\nmacro m1(expr x) { n = x; }\nmacro m2(match p) { p; }\nmacro m3(out o) { o = 1; }\n'
               'macro m4(hook k) { k(); }\nmacro m5(loop l) { break l; }\nmacro m6(finishcode f) { finish f; }\nmacro m7(macro z) { z(); }\n')

CROSS_EXPRS = [
    'true', '5', '-3', '0x1f', '0b101', "'a'", "'\\n'", '"ab"', '"ab"i', '"6162"b', '""', 'n', 'u', 'b', 'e', 's', 't', 'r', 'h', 'EA',
    'FC', 'YC', 'm0', 'nope', '/a+/', '/[a-c]x?/', 'b/41 42/', 'end', '("a" "b")', '("a" /b/)', '(n)', '[n]', '[n + 1]', '[s.len]', '[s[0]]',
    '[$last]', '[b && n > 2]', '[e == EA]', '[-n]', '[!b]', '[1 << n]', "['a' + 1]", '[n / 0]', '[s]', '[h]', '[nope]', '[r.len]', '[r[1]]',
    '[t[n]]', '[EA]', '[FC]', '[true]', '[1 / 0]', '[7 % 0]', '[6 / 3 * 2]', '[1 << 40]', '[1 << -1]', '[2 - 5]', '[1 | 2 & 3 ^ 4]', '[1 < 2]', '[!1]', '[-(3)]', '[5 == 5 && 1]',
    '[1000000000000]', '[-9223372036854775808]', '[0x]'.replace('0x]', '0x10]'),
]

CROSS_POSITIONS = [
    ('match', '"a"; %s; "z";'),
    ('assign-int', '"a"; n = %s; "z";'),
    ('assign-u8', '"a"; u = %s; "z";'),
    ('assign-bool', '"a"; b = %s; "z";'),
    ('assign-enum', '"a"; e = %s; "z";'),
    ('assign-str', '"a"; s = %s; "z";'),
    ('assign-raw', '"a"; r = %s; "z";'),
    ('assign-hook', '"a"; h = %s; "z";'),
    ('append-str', '"a"; s += %s; "z";'),
    ('append-unterminated', '"a"; t += %s; "z";'),
    ('append-raw', '"a"; r += %s; "z";'),
    ('append-int', '"a"; n += %s; "z";'),
    ('wait', '"a"; wait %s; "z";'),
    ('case-predicate', '"a"; case { %s -> { n = 1; } "y" -> { n = 2; } } "z";'),
    ('greedy-predicate', '"a"; greedy case { %s -> { n = 1; } prio 2 "yy" -> { n = 2; } } "z";'),
    ('arg-expr', '"a"; m1(%s); "z";'),
    ('arg-match', '"a"; m2(%s); "z";'),
    ('arg-out', '"a"; m3(%s); "z";'),
    ('arg-hook', '"a"; m4(%s); "z";'),
    ('arg-loop', '"a"; loop L { "l"; m5(%s); } "z";'),
    ('arg-finishcode', '"a"; m6(%s); "z";'),
    ('arg-macro', '"a"; m7(%s); "z";'),
    ('arg-to-hook', '"a"; h(%s); "z";'),
    ('arg-surplus', '"a"; m0(%s); "z";'),
    ('foreach-body', '"a"; foreach { %s; } do { n = [$last]; } "z";'),
    ('optional-body', '"a"; optional { %s; } "z";'),
    ('loop-body', '"a"; loop { %s; if n > 2 { break; } } "z";'),
    ('try-body', 'try { "a"; %s; } catch { "z"; }'),
]

CROSS_CONDS = ['n', 'b', 'e == EA', 's.len', 's[0] == 97', '$last', "'a'", 'true', 'h', 's', 'nope', 'FC', '1 << 40', 'n / 0', 'r[0]', '!s', '-b', 'e', 'EA',
               'n == "a"'.replace('"a"', "'a'"), 'b && s.len > n || !b']


def cross_programs(rng=None, limit=None):
    items = []
    for pname, tmpl in CROSS_POSITIONS:
        for x in CROSS_EXPRS:
            if x.startswith('[') and pname.startswith('arg-') and pname not in ('arg-expr', 'arg-match', 'arg-to-hook', 'arg-surplus'):
                continue
            src = CROSS_DECLS + 'parser {\n    ' + tmpl % x + '\n}\n'
            items.append(('cross:%s:%s' % (pname, x), src, ['-O1', '-fyield-support', '-feof-support'], False))
    for c in CROSS_CONDS:
        items.append(('cross:if:%s' % c, CROSS_DECLS + 'parser {\n    "a"; if %s { "x"; } elif %s { n = 1; } else { "y"; } "z";\n}\n' % (c, c), ['-O1', '-fyield-support'], False))
        items.append(('cross:condact:%s' % c, CROSS_DECLS + 'parser {\n    "a"; if %s { n = 1; } "z";\n}\n' % c, ['-O2', '-fyield-support'], False))
    if limit is not None and rng is not None and len(items) > limit:
        items = rng.sample(items, limit)
    return items
