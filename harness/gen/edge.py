"""C18: syntactically valid sources biased to semantic edge cases (the compiler must answer with code or a diagnosis)."""
import random
from gen import prog as genprog

SNIPPETS = [
    # (name, source, must_be_diagnosed)
    ('unknown-escape', 'parser { "a\\q"; }', True),
    ('unicode-escape', 'parser { "\\u1234"; }', True),
    ('raw-unicode-char', 'parser { "ሴ"; }', False),
    ('assign-to-raw', 'out raw{uint32_t} r;\nparser { "a"; r = 5; }', True),
    ('odd-int-width', 'out int{unsigned, size 3} n;\nparser { "a"; n = 1; }', True),
    ('odd-int-width-signed', 'out int{size 5} n;\nparser { "a"; n = 1; }', True),
    ('append-to-int', 'out int n;\nparser { n += "a"; }', True),
    ('append-expr-to-int', 'out int n;\nparser { "a"; n += [1]; }', True),
    ('action-only-program', 'hook h;\nparser { h(); }', False),
    ('finish-only-program', 'parser { finish; }', False),
    ('action-only-optional', 'hook h;\nparser { "a"; optional { h(); } "b"; }', True),
    ('action-only-loop', 'hook h;\nparser { "a"; loop { h(); } }', True),
    ('action-only-try', 'hook h;\nparser { try { h(); } catch { "a"; } }', True),
    ('action-only-case-clause-only', 'hook h;\nparser { case { "a" -> { h(); } } }', False),
    ('undefined-out', 'parser { "a"; nope = 1; }', True),
    ('undefined-hook', 'parser { "a"; nope(); }', True),
    ('undefined-loop', 'parser { loop { "a"; break nope; } }', True),
    ('break-outside-loop', 'parser { "a"; break; }', True),
    ('yield-without-support', 'yieldcode Y;\nparser { "a"; yield Y; }', True),
    ('end-without-eof', 'parser { "a"; end; }', True),
    ('undefined-finishcode', 'parser { "a"; finish NOPE; }', True),
    ('duplicate-out', 'out int n;\nout bool n;\nparser { "a"; }', True),
    ('duplicate-hook', 'hook h;\nhook h;\nparser { "a"; }', True),
    ('string-default-on-int', 'out int n = "abc";\nparser { "a"; }', True),
    ('int-default-on-string', 'out str[4] s = 5;\nparser { "a"; }', True),
    ('enum-default', 'out enum{A,B} e = A;\nparser { "a"; }', True),
    ('bool-assigned-int', 'out bool b;\nparser { "a"; b = 5; }', True),
    ('int-assigned-string', 'out int n;\nparser { "a"; n = "x"; }', True),
    ('string-assigned-int', 'out str[4] s;\nparser { "a"; s = 5; }', True),
    ('string-too-long', 'out str[3] s;\nparser { "a"; s = "abcd"; }', True),
    ('enum-unknown-constant', 'out enum{A,B} e;\nparser { "a"; e = C; }', True),
    ('index-non-string', 'out int n;\nout int m;\nparser { "a"; n = [m[0]]; }', True),
    ('len-non-string', 'out int n;\nout int m;\nparser { "a"; n = [m.len]; }', True),
    ('unknown-builtin', 'out int n;\nparser { "a"; n = [$first]; }', True),
    ('last-in-default', 'out int n = 5;\nparser { n = [$last]; "a"; }', True),
    ('last-in-condition-point', 'parser { "a"; if $last == 1 { "b"; } }', True),
    ('huge-repeat', 'parser { /a{600}/; }', False),
    ('huge-range-repeat', 'parser { /(ab){0,200}c/; }', False),
    ('nested-empty-star', 'parser { /(a*)*b/; }', False),
    ('nested-optional-star', 'parser { /(a?b?)*c/; }', False),
    ('empty-alternation-branchless', 'parser { /a|b|c|d|e|f|g|h/; }', False),
    ('zero-size-string', 'out str[0] s;\nparser { "a"; }', False),
    ('one-size-terminated-string', 'out str[1] s;\nparser { s += "a"; }', False),
    ('hex-size', 'out str[0x10] s;\nparser { s += /a+/; "b"; }', False),
    ('odd-binary-literal', 'parser { "abc"b; }', True),
    ('binary-default-odd', 'out str[4] s = "abc"b;\nparser { "a"; }', True),
    ('empty-string-match', 'parser { ""; "a"; }', False),
    ('empty-binary-match', 'parser { ""b; "a"; }', False),
    ('macro-recursion', 'macro m() { m(); }\nparser { "a"; m(); }', True),
    ('macro-wrong-arity', 'macro m(out x) { x = 1; }\nout int n;\nparser { "a"; m(); }', True),
    ('macro-wrong-kind', 'macro m(out x) { x = 1; }\nhook h;\nparser { "a"; m("b"); }', True),
    ('foreach-with-match-action', 'out int n;\nparser { foreach { "a"; } do { "b"; } }', True),
    ('foreach-empty-body-actions-only', 'out int n;\nparser { foreach { n = 1; } do { n = 2; } "a"; }', True),
    ('greedy-prio-tie', 'parser { greedy case { prio 1 "ab" -> {} prio 1 /a./ -> {} } }', True),
    ('case-only-else', 'parser { case { else -> { "a"; } } }', False),
    ('case-empty-else-only', 'parser { "x"; case { else -> {} } "y"; }', False),
    ('catch-unknown-option', 'parser { try { "a"; } catch (nomatch, outofspace) { } "b"; }', False),
    ('finish-in-foreach-actions', 'parser { foreach { "a"; } do { finish; } }', False),
    ('break-in-foreach-actions', 'parser { loop { foreach { "a"; } do { break; } } }', False),
    ('delete-int', 'out int n;\nparser { "a"; delete n; }', True),
    ('wait-end-no-eof', 'parser { wait end; }', True),
    ('out-named-state', 'out int state;\nparser { "a"; state = 1; }', False),
    ('enum-named-finish', 'out enum{A,B} finish;\nparser { "a"; }', True),
    ('if-string-condition', 'out str[4] s;\nparser { "a"; if s { "b"; } }', True),
    ('elif-chain-no-else', 'out int n;\nparser { "a"; if n == 1 { "b"; } elif n == 2 { "c"; } elif n == 3 { "d"; } "e"; }', False),
    ('int-minimum-literal', 'out int n;\nparser { "a"; n = -2147483648; }', False),
    ('int-huge-literal', 'out int n;\nparser { "a"; n = 99999999999999999999; }', False),
    ('char-const-escape', "out int n;\nparser { \"a\"; n = '\\z'; }", False),
    ('cond-break-and-finish', 'parser { loop { /[abc]/; if $last == 97 { break; } elif $last == 98 { finish; } } "x"; }', False),
    ('cond-named-break-and-finish-code', 'finishcode F;\nparser { loop outer { loop { /[abc]/; if $last == 97 { break outer; } elif $last == 98 { finish F; } else { break; } } "y"; } "x"; }', False),
    ('cond-append-and-finish', 'out str[3] s;\nparser { try { loop { /[ab]/; if $last == 97 { s += [$last]; } else { finish; } } } catch (outofspace) { "z"; } }', False),
    ('cond-yield-and-break', 'yieldcode Y;\nparser { loop { /[ab]/; if $last == 97 { yield Y; } else { break; } } "x"; }', False),
    ('shift-chain', 'out int n;\nparser { "a"; n = [(1 << 2) << 3]; }', False),
]


def edge_programs(rng, n_random):
    items = []
    for name, src, must in SNIPPETS:
        args = ['-O1'] + (['-fyield-support'] if 'yield' in name and 'without' not in name else [])
        items.append(('edge:' + name, src, args, must))
    # random mutations of well-formed generated programs: rename a referenced name, drop a declaration, change a width
    for i in range(n_random):
        s = rng.randrange(1 << 30)
        ast, src = genprog.generate(s, None, maxdepth=2, maxstmts=3)
        k = rng.randrange(5)
        lines = src.splitlines()
        if k == 0:
            decls = [j for j, l in enumerate(lines) if l.startswith(('out ', 'hook ', 'finishcode ', 'yieldcode '))]
            if decls:
                del lines[rng.choice(decls)]
        elif k == 1:
            lines = [l.replace('size 1', 'size 3').replace('size 2', 'size 7') for l in lines]
        elif k == 2:
            lines = [l.replace('n0', 's0', 1) if ('n0 =' in l and rng.random() < 0.5) else l for l in lines]
        elif k == 3:
            lines = [l.replace('break;', 'break nowhere;', 1) for l in lines]
        else:
            lines = [l.replace('"', '"\\q', 1) if (l.strip().startswith('"') and rng.random() < 0.3) else l for l in lines]
        items.append(('mut:%d:%d' % (s, k), '\n'.join(lines) + '\n', [rng.choice(['-O0', '-O1', '-O2', '-O3'])], False))
    return items
